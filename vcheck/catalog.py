"""Catalogue of the public operations of vector objects, with for each one: how it is
called, which operands it takes, the reference definition (vcheck.refmodel) and the
regular-domain precondition under which that definition is finite.

The catalogue is data written from the protocol docstrings; it is not derived from the
repository's internal dispatch tables."""

from __future__ import annotations

import dataclasses
import typing

import mpmath
from mpmath import mpf

from vcheck import refmodel as R

ZERO = mpf(0)


@dataclasses.dataclass
class Op:
    name: str
    kind: str  # "prop" | "method"
    self_dims: tuple
    other: typing.Optional[str]  # None | same | any | 34 | 3 | 4 | 3or4
    scalars: tuple  # names of scalar arguments (their kinds are in SCALAR_KIND)
    result: str  # scalar | angle | bool | vec
    ref: typing.Callable
    pre: typing.Callable
    call: typing.Callable
    momentum: bool = False
    changed: typing.Optional[int] = None  # scale2D &c: number of leading Cartesian comps the op may change
    out_dim: typing.Optional[typing.Callable] = None
    tags: tuple = ()
    variant_of: str = ""  # method name used for the public call (e.g. boostX for boostX_beta)

    def result_dim(self, da, db):
        if self.result != "vec":
            return None
        if self.out_dim is not None:
            return self.out_dim(da, db)
        return da

    def other_dims(self, da):
        if self.other is None:
            return (None,)
        return {
            "same": (da,),
            "any": (2, 3, 4),
            "34": (3, 4),
            "3": (3,),
            "4": (4,),
            "3or4": (3, 4),
        }[self.other]


SCALAR_KIND = {
    "angle": "angle", "phi": "angle", "theta": "angle", "psi": "angle", "yaw": "angle", "pitch": "angle",
    "roll": "angle", "factor": "factor", "beta": "beta", "gamma": "gamma", "tolerance": "tol",
    "rtol": "tol", "atol": "tol", "m2": "matrix2", "m3": "matrix3", "m4": "matrix4", "quat": "quat",
    "order": "order",
}

OPS: dict = {}


def _add(op: Op):
    assert op.name not in OPS, op.name
    OPS[op.name] = op


def _true(a, b, s):
    return True


def _rho_pos(v):
    return R.rho2(v) > 0


def _mag_pos(v):
    return R.mag2(v) > 0


# ----------------------------------------------------------------------------- accessors
def _acc(name, dims, pre=_true, momentum=False, result="scalar", ref=None, attr=None):
    attr = attr or name
    _add(Op(name, "prop", dims, None, (), result, (lambda a, b, s, _f=ref or R.ACCESSORS[name]: _f(a)), pre,
            (lambda v, w, s, _n=attr: getattr(v, _n)), momentum=momentum))


_acc("x", (2, 3, 4))
_acc("y", (2, 3, 4))
_acc("rho", (2, 3, 4))
_acc("rho2", (2, 3, 4))
_acc("phi", (2, 3, 4), lambda a, b, s: _rho_pos(a), result="angle")
_acc("z", (3, 4))
_acc("theta", (3, 4), lambda a, b, s: _mag_pos(a))
_acc("eta", (3, 4), lambda a, b, s: _rho_pos(a))
_acc("costheta", (3, 4), lambda a, b, s: _mag_pos(a))
_acc("cottheta", (3, 4), lambda a, b, s: _rho_pos(a))
_acc("mag", (3, 4))
_acc("mag2", (3, 4))
_acc("t", (4,))
_acc("t2", (4,))
_acc("tau", (4,))
_acc("tau2", (4,))
_acc("beta", (4,), lambda a, b, s: a[3] != 0)
_acc("gamma", (4,), lambda a, b, s: R.tau2(a) != 0)
_acc("rapidity", (4,), lambda a, b, s: abs(a[2]) < abs(a[3]))
_acc("Et", (4,), lambda a, b, s: _mag_pos(a), momentum=True)
_acc("Et2", (4,), lambda a, b, s: _mag_pos(a), momentum=True)
_acc("Mt", (4,), lambda a, b, s: a[3] * a[3] > a[2] * a[2], momentum=True)
_acc("Mt2", (4,), momentum=True)

# momentum synonyms: (synonym, geometric, dims)
SYNONYMS = [
    ("px", "x", (2, 3, 4)), ("py", "y", (2, 3, 4)), ("pt", "rho", (2, 3, 4)), ("pt2", "rho2", (2, 3, 4)),
    ("pz", "z", (3, 4)), ("pseudorapidity", "eta", (3, 4)), ("p", "mag", (3, 4)), ("p2", "mag2", (3, 4)),
    ("E", "t", (4,)), ("e", "t", (4,)), ("energy", "t", (4,)),
    ("E2", "t2", (4,)), ("e2", "t2", (4,)), ("energy2", "t2", (4,)),
    ("M", "tau", (4,)), ("m", "tau", (4,)), ("mass", "tau", (4,)),
    ("M2", "tau2", (4,)), ("m2", "tau2", (4,)), ("mass2", "tau2", (4,)),
    ("et", "Et", (4,)), ("transverse_energy", "Et", (4,)),
    ("et2", "Et2", (4,)), ("transverse_energy2", "Et2", (4,)),
    ("mt", "Mt", (4,)), ("transverse_mass", "Mt", (4,)),
    ("mt2", "Mt2", (4,)), ("transverse_mass2", "Mt2", (4,)),
]
for _syn, _geo, _dims in SYNONYMS:
    _g = OPS[_geo]
    _add(Op(_syn, "prop", _dims, None, (), _g.result, _g.ref, _g.pre,
            (lambda v, w, s, _n=_syn: getattr(v, _n)), momentum=True, tags=("synonym",), variant_of=_geo))

# ------------------------------------------------------------------------ unary -> vector
_add(Op("unit", "method", (2, 3, 4), None, (), "vec", lambda a, b, s: R.unit(a),
        lambda a, b, s: R.norm(a) != 0, lambda v, w, s: v.unit()))
_add(Op("neg2D", "prop", (2, 3, 4), None, (), "vec", lambda a, b, s: (-a[0], -a[1]) + tuple(a[2:]), _true,
        lambda v, w, s: v.neg2D, changed=2))
_add(Op("neg3D", "prop", (3, 4), None, (), "vec", lambda a, b, s: (-a[0], -a[1], -a[2]) + tuple(a[3:]), _true,
        lambda v, w, s: v.neg3D, changed=3))
_add(Op("neg4D", "prop", (4,), None, (), "vec", lambda a, b, s: tuple(-p for p in a), _true,
        lambda v, w, s: v.neg4D))
_add(Op("to_beta3", "method", (4,), None, (), "vec", lambda a, b, s: R.to_beta3(a), lambda a, b, s: a[3] != 0,
        lambda v, w, s: v.to_beta3(), out_dim=lambda da, db: 3))

# ------------------------------------------------------------------- scalar-arg -> vector
_add(Op("scale", "method", (2, 3, 4), None, ("factor",), "vec", lambda a, b, s: R.scale(a, s["factor"]), _true,
        lambda v, w, s: v.scale(s["factor"])))
_add(Op("scale2D", "method", (2, 3, 4), None, ("factor",), "vec",
        lambda a, b, s: R.scale(a[:2], s["factor"]) + tuple(a[2:]), _true,
        lambda v, w, s: v.scale2D(s["factor"]), changed=2))
_add(Op("scale3D", "method", (3, 4), None, ("factor",), "vec",
        lambda a, b, s: R.scale(a[:3], s["factor"]) + tuple(a[3:]), _true,
        lambda v, w, s: v.scale3D(s["factor"]), changed=3))
_add(Op("scale4D", "method", (4,), None, ("factor",), "vec", lambda a, b, s: R.scale(a, s["factor"]), _true,
        lambda v, w, s: v.scale4D(s["factor"])))
_add(Op("rotateZ", "method", (2, 3, 4), None, ("angle",), "vec", lambda a, b, s: R.rotZ(a, s["angle"]), _true,
        lambda v, w, s: v.rotateZ(s["angle"]), tags=("rotation",)))
_add(Op("rotateX", "method", (3, 4), None, ("angle",), "vec", lambda a, b, s: R.rotX(a, s["angle"]), _true,
        lambda v, w, s: v.rotateX(s["angle"]), tags=("rotation",)))
_add(Op("rotateY", "method", (3, 4), None, ("angle",), "vec", lambda a, b, s: R.rotY(a, s["angle"]), _true,
        lambda v, w, s: v.rotateY(s["angle"]), tags=("rotation",)))
_add(Op("rotate_euler", "method", (3, 4), None, ("phi", "theta", "psi", "order"), "vec",
        lambda a, b, s: R.rotate_euler(a, s["phi"], s["theta"], s["psi"], s["order"]), _true,
        lambda v, w, s: v.rotate_euler(s["phi"], s["theta"], s["psi"], s["order"]), tags=("rotation",)))
_add(Op("rotate_nautical", "method", (3, 4), None, ("yaw", "pitch", "roll"), "vec",
        lambda a, b, s: R.rotate_nautical(a, s["yaw"], s["pitch"], s["roll"]), _true,
        lambda v, w, s: v.rotate_nautical(s["yaw"], s["pitch"], s["roll"]), tags=("rotation",)))
_add(Op("rotate_quaternion", "method", (3, 4), None, ("quat",), "vec",
        lambda a, b, s: R.rotate_quaternion(a, *s["quat"]), _true,
        lambda v, w, s: v.rotate_quaternion(*s["quat"]), tags=("rotation",), changed=3))
_add(Op("transform2D", "method", (2, 3, 4), None, ("m2",), "vec", lambda a, b, s: R.transform2D(a, s["m2"]), _true,
        lambda v, w, s: v.transform2D(s["m2"]), changed=2))
_add(Op("transform3D", "method", (3, 4), None, ("m3",), "vec", lambda a, b, s: R.transform3D(a, s["m3"]), _true,
        lambda v, w, s: v.transform3D(s["m3"]), changed=3))
_add(Op("transform4D", "method", (4,), None, ("m4",), "vec", lambda a, b, s: R.transform4D(a, s["m4"]), _true,
        lambda v, w, s: v.transform4D(s["m4"])))
for _ax in "XYZ":
    _add(Op(f"boost{_ax}_beta", "method", (4,), None, ("beta",), "vec",
            (lambda a, b, s, _a=_ax.lower(): R.boost_axis_beta(a, _a, s["beta"])),
            lambda a, b, s: abs(s["beta"]) < 1,
            (lambda v, w, s, _n=f"boost{_ax}": getattr(v, _n)(beta=s["beta"])), tags=("boost",),
            variant_of=f"boost{_ax}"))
    _add(Op(f"boost{_ax}_gamma", "method", (4,), None, ("gamma",), "vec",
            (lambda a, b, s, _a=_ax.lower(): R.boost_axis_gamma(a, _a, s["gamma"])),
            lambda a, b, s: abs(s["gamma"]) >= 1,
            (lambda v, w, s, _n=f"boost{_ax}": getattr(v, _n)(gamma=s["gamma"])), tags=("boost",),
            variant_of=f"boost{_ax}"))

# ----------------------------------------------------------------------- binary -> scalar
_add(Op("dot", "method", (2, 3, 4), "same", (), "scalar", lambda a, b, s: R.dot(a, b), _true,
        lambda v, w, s: v.dot(w)))
_add(Op("deltaphi", "method", (2, 3, 4), "any", (), "angle", lambda a, b, s: R.deltaphi(a, b),
        lambda a, b, s: _rho_pos(a) and _rho_pos(b), lambda v, w, s: v.deltaphi(w)))
_add(Op("deltaangle", "method", (3, 4), "34", (), "scalar", lambda a, b, s: R.deltaangle(a, b),
        lambda a, b, s: _mag_pos(a) and _mag_pos(b), lambda v, w, s: v.deltaangle(w)))
_add(Op("deltaeta", "method", (3, 4), "34", (), "scalar", lambda a, b, s: R.deltaeta(a, b),
        lambda a, b, s: _rho_pos(a) and _rho_pos(b), lambda v, w, s: v.deltaeta(w)))
_add(Op("deltaR", "method", (3, 4), "34", (), "scalar", lambda a, b, s: R.deltaR(a, b),
        lambda a, b, s: _rho_pos(a) and _rho_pos(b), lambda v, w, s: v.deltaR(w)))
_add(Op("deltaR2", "method", (3, 4), "34", (), "scalar", lambda a, b, s: R.deltaR2(a, b),
        lambda a, b, s: _rho_pos(a) and _rho_pos(b), lambda v, w, s: v.deltaR2(w)))


def _rap_ok(a):
    return abs(a[2]) < abs(a[3])


_add(Op("deltaRapidityPhi", "method", (4,), "4", (), "scalar", lambda a, b, s: R.deltaRapidityPhi(a, b),
        lambda a, b, s: _rap_ok(a) and _rap_ok(b) and _rho_pos(a) and _rho_pos(b),
        lambda v, w, s: v.deltaRapidityPhi(w)))
_add(Op("deltaRapidityPhi2", "method", (4,), "4", (), "scalar", lambda a, b, s: R.deltaRapidityPhi2(a, b),
        lambda a, b, s: _rap_ok(a) and _rap_ok(b) and _rho_pos(a) and _rho_pos(b),
        lambda v, w, s: v.deltaRapidityPhi2(w)))

# ----------------------------------------------------------------------- binary -> vector
_add(Op("add", "method", (2, 3, 4), "same", (), "vec", lambda a, b, s: R.add(a, b), _true,
        lambda v, w, s: v.add(w)))
_add(Op("subtract", "method", (2, 3, 4), "same", (), "vec", lambda a, b, s: R.subtract(a, b), _true,
        lambda v, w, s: v.subtract(w)))
_add(Op("cross", "method", (3,), "3", (), "vec", lambda a, b, s: R.cross(a, b), _true,
        lambda v, w, s: v.cross(w), out_dim=lambda da, db: 3))
_add(Op("rotate_axis", "method", (3, 4), "3", ("angle",), "vec", lambda a, b, s: R.rotate_axis(a, b, s["angle"]),
        lambda a, b, s: _mag_pos(b), lambda v, w, s: v.rotate_axis(w, s["angle"]), tags=("rotation", "axis")))


def _booster4_ok(a, b, s):
    return b[3] > 0 and R.tau2(b) > 0


def _booster3_ok(a, b, s):
    return R.mag2(b) < 1


_add(Op("boost_p4", "method", (4,), "4", (), "vec", lambda a, b, s: R.boost_p4(a, b), _booster4_ok,
        lambda v, w, s: v.boost_p4(w), tags=("boost",)))
_add(Op("boost_beta3", "method", (4,), "3", (), "vec", lambda a, b, s: R.boost_beta3(a, b), _booster3_ok,
        lambda v, w, s: v.boost_beta3(w), tags=("boost", "beta3")))
_add(Op("boost", "method", (4,), "3or4", (), "vec",
        lambda a, b, s: R.boost_p4(a, b) if len(b) == 4 else R.boost_beta3(a, b),
        lambda a, b, s: _booster4_ok(a, b, s) if len(b) == 4 else _booster3_ok(a, b, s),
        lambda v, w, s: v.boost(w), tags=("boost", "beta3")))
_add(Op("boostCM_of_p4", "method", (4,), "4", (), "vec", lambda a, b, s: R.boost_p4(a, R.neg3(b)), _booster4_ok,
        lambda v, w, s: v.boostCM_of_p4(w), tags=("boost",)))
_add(Op("boostCM_of_beta3", "method", (4,), "3", (), "vec", lambda a, b, s: R.boost_beta3(a, R.neg3(b)),
        _booster3_ok, lambda v, w, s: v.boostCM_of_beta3(w), tags=("boost", "beta3")))
_add(Op("boostCM_of", "method", (4,), "3or4", (), "vec",
        lambda a, b, s: R.boost_p4(a, R.neg3(b)) if len(b) == 4 else R.boost_beta3(a, R.neg3(b)),
        lambda a, b, s: _booster4_ok(a, b, s) if len(b) == 4 else _booster3_ok(a, b, s),
        lambda v, w, s: v.boostCM_of(w), tags=("boost", "beta3")))


# ------------------------------------------------------------------------- binary -> bool
def _eq(a, b, s):
    return all(p == q for p, q in zip(a, b))


_add(Op("equal", "method", (2, 3, 4), "same", (), "bool", _eq, _true, lambda v, w, s: v.equal(w), tags=("eq",)))
_add(Op("not_equal", "method", (2, 3, 4), "same", (), "bool", lambda a, b, s: not _eq(a, b, s), _true,
        lambda v, w, s: v.not_equal(w), tags=("eq",)))
_add(Op("isclose", "method", (2, 3, 4), "same", ("rtol", "atol"), "bool", None, _true,
        lambda v, w, s: v.isclose(w, rtol=s["rtol"], atol=s["atol"]), tags=("eq",)))


def _pred_pre(a, b, s):
    return _mag_pos(a) if len(a) > 2 else _rho_pos(a)


def _cos(a, b):
    if len(a) == 2:
        return (a[0] * b[0] + a[1] * b[1]) / (R.rho(a) * R.rho(b))
    return R.cosangle(a, b)


_add(Op("is_parallel", "method", (2, 3, 4), "same", ("tolerance",), "bool",
        lambda a, b, s: _cos(a, b) > 1 - abs(R.M(s["tolerance"])),
        lambda a, b, s: _pred_pre(a, b, s) and _pred_pre(b, a, s),
        lambda v, w, s: v.is_parallel(w, s["tolerance"]), tags=("angle_pred",)))
_add(Op("is_antiparallel", "method", (2, 3, 4), "same", ("tolerance",), "bool",
        lambda a, b, s: _cos(a, b) < -1 + abs(R.M(s["tolerance"])),
        lambda a, b, s: _pred_pre(a, b, s) and _pred_pre(b, a, s),
        lambda v, w, s: v.is_antiparallel(w, s["tolerance"]), tags=("angle_pred",)))
_add(Op("is_perpendicular", "method", (2, 3, 4), "same", ("tolerance",), "bool",
        lambda a, b, s: abs(_cos(a, b)) < abs(R.M(s["tolerance"])),
        lambda a, b, s: _pred_pre(a, b, s) and _pred_pre(b, a, s),
        lambda v, w, s: v.is_perpendicular(w, s["tolerance"]), tags=("angle_pred",)))
_add(Op("is_timelike", "method", (4,), None, ("tolerance",), "bool",
        lambda a, b, s: R.tau2(a) > abs(R.M(s["tolerance"])), _true,
        lambda v, w, s: v.is_timelike(s["tolerance"]), tags=("causal_pred",)))
_add(Op("is_spacelike", "method", (4,), None, ("tolerance",), "bool",
        lambda a, b, s: R.tau2(a) < -abs(R.M(s["tolerance"])), _true,
        lambda v, w, s: v.is_spacelike(s["tolerance"]), tags=("causal_pred",)))
_add(Op("is_lightlike", "method", (4,), None, ("tolerance",), "bool",
        lambda a, b, s: abs(R.tau2(a)) < abs(R.M(s["tolerance"])), _true,
        lambda v, w, s: v.is_lightlike(s["tolerance"]), tags=("causal_pred",)))


# conversions / embeddings as operations on a single vector (structure- and type-level checks: C18, C16); their values
# are C04's subject, so they carry no reference definition and are not part of OPS
EXTRA_OPS: dict = {}


def _extra(op: Op):
    assert op.name not in OPS and op.name not in EXTRA_OPS, op.name
    EXTRA_OPS[op.name] = op


for _n, _dims, _out, _call in (
    ("to_Vector2D", (2, 3, 4), 2, lambda v, w, s: v.to_Vector2D()),
    ("to_Vector3D", (2, 3, 4), 3, lambda v, w, s: v.to_Vector3D()),
    ("to_Vector4D", (2, 3, 4), 4, lambda v, w, s: v.to_Vector4D()),
    ("to_Vector3D(theta=)", (2,), 3, lambda v, w, s: v.to_Vector3D(theta=0.75)),
    ("to_Vector4D(t=)", (2, 3), 4, lambda v, w, s: v.to_Vector4D(t=7.25)),
    ("to_Vector4D(eta=,mass=)", (2,), 4, lambda v, w, s: v.to_Vector4D(eta=-0.5, mass=2.5)),
    ("to_xy", (2, 3, 4), 2, lambda v, w, s: v.to_xy()),
    ("to_rhophi", (2, 3, 4), 2, lambda v, w, s: v.to_rhophi()),
    ("to_xyz", (2, 3, 4), 3, lambda v, w, s: v.to_xyz()),
    ("to_rhophieta", (2, 3, 4), 3, lambda v, w, s: v.to_rhophieta()),
    ("to_xyzt", (2, 3, 4), 4, lambda v, w, s: v.to_xyzt()),
    ("to_xyzt(t=)", (2, 3), 4, lambda v, w, s: v.to_xyzt(t=7.25)),
    ("to_rhophietatau", (2, 3, 4), 4, lambda v, w, s: v.to_rhophietatau()),
    ("to_rhophietatau(tau=)", (2, 3), 4, lambda v, w, s: v.to_rhophietatau(tau=2.5)),
    ("to_ptphietamass", (2, 3, 4), 4, lambda v, w, s: v.to_ptphietamass()),
):
    _extra(Op(_n, "method", _dims, None, (), "vec", None, _true, _call, out_dim=(lambda da, db, _o=_out: _o), tags=("conversion",)))


def get(name):
    return OPS[name] if name in OPS else EXTRA_OPS[name]


def margin(op: Op, a, b, s):
    """Distance of a boolean decision from its threshold (None: not applicable)."""
    n = op.name
    if n in ("is_parallel",):
        return abs(_cos(a, b) - (1 - abs(R.M(s["tolerance"]))))
    if n == "is_antiparallel":
        return abs(_cos(a, b) - (-1 + abs(R.M(s["tolerance"]))))
    if n == "is_perpendicular":
        return abs(abs(_cos(a, b)) - abs(R.M(s["tolerance"])))
    if n == "is_timelike":
        return abs(R.tau2(a) - abs(R.M(s["tolerance"]))) / R.scale_of(R.t2(a))
    if n == "is_spacelike":
        return abs(R.tau2(a) + abs(R.M(s["tolerance"]))) / R.scale_of(R.t2(a))
    if n == "is_lightlike":
        return abs(abs(R.tau2(a)) - abs(R.M(s["tolerance"]))) / R.scale_of(R.t2(a))
    return None


def ops_for_dim(d, include_synonyms=False, momentum=None):
    out = []
    for op in OPS.values():
        if d not in op.self_dims:
            continue
        if "synonym" in op.tags and not include_synonyms:
            continue
        out.append(op)
    return out


def public_members_uncatalogued():
    """Coverage note: public protocol members that the catalogue does not name."""
    import vector._methods as m

    names = set()
    for cls in (m.VectorProtocolPlanar, m.VectorProtocolSpatial, m.VectorProtocolLorentz,
                m.MomentumProtocolPlanar, m.MomentumProtocolSpatial, m.MomentumProtocolLorentz, m.VectorProtocol):
        for k in vars(cls):
            if not k.startswith("_"):
                names.add(k)
    known = set(OPS) | {o.variant_of for o in OPS.values() if o.variant_of}
    known |= {"boostX", "boostY", "boostZ", "lib", "azimuthal", "longitudinal", "temporal", "like", "allclose",
              "sum", "count", "count_nonzero"}
    return sorted(n for n in names if n not in known and not n.startswith("to_") and not n.startswith("from_"))
