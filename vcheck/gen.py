"""Hypothesis strategies: canonical Cartesian vectors by stratum, scalar arguments.

Every generated value is a plain Python float/int/str so that a case is JSON-able and a
replay is exact.  Strata are constructed (not filtered): each stratum strategy produces
(x, y, z, t) already inside the region it names."""

from __future__ import annotations

import math

from hypothesis import strategies as st

# ---- building blocks --------------------------------------------------------------
# component-specific irrational-ish multipliers: the all-minimal draw is still generic
_K = (1.1312, 0.7743, 1.4142, 0.9161)


def _logmag(lo=-2.0, hi=2.0):
    return st.floats(lo, hi, allow_nan=False).map(lambda e: 10.0**e)


_sign = st.sampled_from((1.0, -1.0))
_unit = st.floats(0.0, 1.0, allow_nan=False, exclude_max=False)


def _small():
    """relative smallness 1e-6 .. 1e-2"""
    return st.floats(-6.0, -2.0).map(lambda e: 10.0**e)


@st.composite
def _xyz_generic(draw):
    return [draw(_sign) * draw(_logmag()) * _K[i] for i in range(3)]


def _mag(v):
    return math.sqrt(v[0] * v[0] + v[1] * v[1] + v[2] * v[2])


@st.composite
def s_octant(draw):
    v = draw(_xyz_generic())
    delta = draw(st.floats(0.05, 5.0))
    return [*v, _mag(v) * (1.0 + delta)]


@st.composite
def s_moderate(draw):
    """well-conditioned: magnitudes 0.1..100, 0.05<theta<pi-0.05, |eta|<5, gamma<30,
    clearly timelike"""
    rho = 10.0 ** draw(st.floats(-0.7, 1.7))
    ph = draw(st.floats(-3.1, 3.1))
    th = draw(st.floats(0.12, math.pi - 0.12))
    x, y = rho * math.cos(ph), rho * math.sin(ph)
    z = rho / math.tan(th)
    m = math.sqrt(rho * rho + z * z)
    delta = draw(st.floats(0.08, 4.0))
    return [x, y, z, m * (1.0 + delta)]


@st.composite
def s_near_z_axis(draw):
    z = draw(_sign) * draw(_logmag(-1, 2)) * _K[2]
    rho = abs(z) * draw(_small())
    ph = draw(st.floats(-3.1, 3.1))
    v = [rho * math.cos(ph), rho * math.sin(ph), z]
    return [*v, _mag(v) * (1.0 + draw(st.floats(0.05, 5.0)))]


@st.composite
def s_near_xy_plane(draw):
    rho = draw(_logmag(-1, 2)) * _K[0]
    ph = draw(st.floats(-3.1, 3.1))
    z = draw(_sign) * rho * draw(_small())
    v = [rho * math.cos(ph), rho * math.sin(ph), z]
    return [*v, _mag(v) * (1.0 + draw(st.floats(0.05, 5.0)))]


@st.composite
def s_x_or_y_small(draw):
    v = draw(_xyz_generic())
    i = draw(st.sampled_from((0, 1)))
    v[i] = draw(_sign) * abs(v[1 - i]) * draw(_small())
    return [*v, _mag(v) * (1.0 + draw(st.floats(0.05, 5.0)))]


@st.composite
def s_phi_special(draw):
    """phi within 1e-6..1e-2 of 0, +-pi/2, +-pi (both sides)"""
    base = draw(st.sampled_from((0.0, math.pi / 2, -math.pi / 2, math.pi, -math.pi)))
    eps = draw(_small()) * draw(_sign)
    ph = base + eps
    rho = draw(_logmag(-1, 2)) * _K[0]
    z = draw(_sign) * draw(_logmag(-1, 2)) * _K[2]
    v = [rho * math.cos(ph), rho * math.sin(ph), z]
    return [*v, _mag(v) * (1.0 + draw(st.floats(0.05, 5.0)))]


@st.composite
def s_lightcone_in(draw):
    v = draw(_xyz_generic())
    m = _mag(v)
    return [*v, m * math.sqrt(1.0 + draw(_small()))]


@st.composite
def s_lightcone_out(draw):
    v = draw(_xyz_generic())
    m = _mag(v)
    return [*v, m * math.sqrt(1.0 - draw(_small()))]


@st.composite
def s_spacelike(draw):
    v = draw(_xyz_generic())
    return [*v, _mag(v) * draw(st.floats(0.1, 0.9))]


@st.composite
def s_at_rest(draw):
    t = draw(_logmag(-1, 2)) * _K[3]
    v = [draw(_sign) * t * draw(st.floats(-6, -3).map(lambda e: 10.0**e)) * _K[i] for i in range(3)]
    return [*v, t]


@st.composite
def s_ultra(draw):
    v = draw(_xyz_generic())
    g = draw(st.floats(1.0, 3.0).map(lambda e: 10.0**e))  # gamma 10..1000
    b = math.sqrt(1.0 - 1.0 / (g * g))
    return [*v, _mag(v) / b]


@st.composite
def s_neg_t(draw):
    v = draw(s_octant())
    v[3] = -v[3]
    return v


def _acc(kind):
    """well-conditioned direction (0.12 < theta < pi-0.12, off the phi seam) combined with a causal character"""
    @st.composite
    def f(draw):
        v = draw(s_moderate())[:3]
        m = _mag(v)
        if kind == "timelike":
            t = m * (1.0 + draw(st.floats(0.08, 4.0)))
        elif kind == "ultra":
            g = 10.0 ** draw(st.floats(1.0, 4.0))
            t = m / math.sqrt(1.0 - 1.0 / (g * g))
        elif kind == "at_rest":
            t = m * 10.0 ** draw(st.floats(2.0, 6.0))
        elif kind == "lightcone_in":
            t = m * math.sqrt(1.0 + draw(_small()))
        elif kind == "lightcone_out":
            t = m * math.sqrt(1.0 - draw(_small()))
        elif kind == "spacelike":
            t = m * draw(st.floats(0.1, 0.9))
        else:  # neg_t
            t = -m * (1.0 + draw(st.floats(0.08, 4.0)))
        return [*v, t]
    return f


STRATA = {
    "octant": s_octant,
    "moderate": s_moderate,
    "near_z_axis": s_near_z_axis,
    "near_xy_plane": s_near_xy_plane,
    "x_or_y_small": s_x_or_y_small,
    "phi_special": s_phi_special,
    "lightcone_in": s_lightcone_in,
    "lightcone_out": s_lightcone_out,
    "spacelike": s_spacelike,
    "at_rest": s_at_rest,
    "ultra": s_ultra,
    "neg_t": s_neg_t,
    "acc_timelike": _acc("timelike"), "acc_ultra": _acc("ultra"), "acc_at_rest": _acc("at_rest"),
    "acc_lightcone_in": _acc("lightcone_in"), "acc_lightcone_out": _acc("lightcone_out"), "acc_spacelike": _acc("spacelike"),
    "acc_neg_t": _acc("neg_t"),
}
G1 = ("octant", "moderate")
G2 = ("near_z_axis", "near_xy_plane", "x_or_y_small", "phi_special")
G3 = ("lightcone_in", "lightcone_out", "spacelike", "at_rest", "ultra", "neg_t")
REGULAR = G1 + G2 + G3
TIMELIKE_FWD = ("octant", "moderate", "near_z_axis", "near_xy_plane", "x_or_y_small", "phi_special",
                "lightcone_in", "at_rest", "ultra")


@st.composite
def vec(draw, strata=REGULAR):
    name = draw(st.sampled_from(tuple(strata)))
    return {"stratum": name, "c": draw(STRATA[name]())}


RELATIONS = ("independent", "independent", "equal", "parallel", "antiparallel", "perpendicular", "near_parallel")


def _cross(a, b):
    return [a[1] * b[2] - a[2] * b[1], a[2] * b[0] - a[0] * b[2], a[0] * b[1] - a[1] * b[0]]


@st.composite
def pair(draw, strata=REGULAR, relations=RELATIONS, strata_b=None):
    """Two canonical vectors with a generated geometric relation between them."""
    a = draw(vec(strata))
    rel = draw(st.sampled_from(tuple(relations)))
    ac = a["c"]
    if rel == "independent":
        b = draw(vec(strata_b or strata))
        return {"rel": rel, "a": a, "b": b}
    f = draw(st.floats(0.3, 3.0)) * 1.0917
    tt = _mag(ac) * 0 + abs(ac[3]) * draw(st.floats(0.5, 2.0)) + 0.1
    if rel == "equal":
        bc = list(ac)
    elif rel == "parallel":
        bc = [ac[0] * f, ac[1] * f, ac[2] * f, tt]
    elif rel == "antiparallel":
        bc = [-ac[0] * f, -ac[1] * f, -ac[2] * f, tt]
    elif rel == "near_parallel":
        e = draw(_small()) * draw(_sign)
        bc = [ac[0] * f + e * ac[1], ac[1] * f - e * ac[0], ac[2] * f * (1 + e), tt]
    else:  # perpendicular (3D sense; the planar projection is generally not perpendicular)
        other = draw(_xyz_generic())
        bc = _cross(ac, other)
        n = _mag(bc) or 1.0
        bc = [p / n * f * _mag(ac) for p in bc] + [tt]
    return {"rel": rel, "a": a, "b": {"stratum": "rel:" + rel, "c": bc}}


# ---- scalar arguments -----------------------------------------------------------------
def angle():
    return st.one_of(
        st.floats(-math.pi, math.pi),
        st.floats(-50.0, 50.0),
        st.sampled_from((0.5 * math.pi, -0.5 * math.pi, math.pi, -math.pi, 2 * math.pi, 1.5 * math.pi, 0.0)),
        st.floats(-3.0, 3.0).map(lambda k: k * 1e-3),
    )


def generic_angle():
    """not a multiple of pi/2, moderate"""
    return st.floats(0.11, 1.37).flatmap(lambda a: st.sampled_from((a, -a, a + 1.7, -a - 2.9, a + 4.1)))


def factor():
    return st.builds(lambda s, m: s * m * 1.0371, _sign, _logmag(-2, 2))


def positive_factor():
    return _logmag(-2, 2).map(lambda m: m * 1.0371)


def beta():
    return st.one_of(
        st.floats(-0.95, 0.95),
        st.floats(-6.0, -1.0).map(lambda e: 1.0 - 10.0**e),
        st.floats(-6.0, -1.0).map(lambda e: -(1.0 - 10.0**e)),
        st.floats(-6.0, -2.0).map(lambda e: 10.0**e),
    )


def moderate_beta():
    return st.floats(0.05, 0.93).flatmap(lambda b: st.sampled_from((b, -b)))


def gamma():
    return st.builds(lambda s, g: s * g, _sign, st.one_of(st.floats(1.001, 30.0), st.floats(0.0, 3.0).map(lambda e: 10.0**e * 1.0001)))


def moderate_gamma():
    return st.builds(lambda s, g: s * g, _sign, st.floats(1.05, 25.0))


def tolerance():
    # tolerances above 1 are legitimate: "cosine within tol of +1" is then cos > 1 - tol < 0
    return st.one_of(st.just(0.0), st.floats(-9.0, -1.0).map(lambda e: 10.0**e), st.floats(0.0, 0.5), st.floats(0.5, 2.5))


@st.composite
def beta3(draw, moderate=False):
    """velocity vector with |beta| < 1, all components non-zero"""
    d = [draw(_sign) * draw(st.floats(0.2, 1.0)) * _K[i] for i in range(3)]
    n = _mag(d)
    b = abs(draw(moderate_beta() if moderate else beta()))
    return [p / n * b for p in d]


@st.composite
def matrix(draw, n):
    names = "xyzt"[:n]
    return {a + b: draw(st.floats(-3.0, 3.0)) * 1.0193 + (1.0 if a == b else 0.0) for a in names for b in names}


@st.composite
def quaternion(draw, unit=None):
    if unit is None:
        unit = draw(st.booleans())
    ax = [draw(_sign) * draw(st.floats(0.2, 1.0)) * _K[i] for i in range(3)]
    n = _mag(ax)
    a = draw(generic_angle())
    s = math.sin(a / 2)
    q = [math.cos(a / 2), ax[0] / n * s, ax[1] / n * s, ax[2] / n * s]
    if not unit:
        f = draw(st.floats(0.3, 3.0)) * 1.0713
        q = [p * f for p in q]
    return q


EULER_ORDERS = ("xzx", "xyx", "yxy", "yzy", "zyz", "zxz", "xzy", "xyz", "yxz", "yzx", "zyx", "zxy")
