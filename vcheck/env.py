"""Process environment: where the repository under test lives, deterministic seeds,
byte-code isolation.  Imported first by every entry point and every worker."""

from __future__ import annotations

import atexit
import os
import pathlib
import shutil
import sys
import zlib

VERIF = pathlib.Path(__file__).resolve().parent.parent
REPO = pathlib.Path(os.environ.get("VERIF_REPO", "/repo")).resolve()
SRC = REPO / "src"

EXIT_OK = 0
EXIT_VIOLATION = 1
EXIT_HARNESS = 2


class HarnessError(Exception):
    """Something is wrong with the verification machinery itself (exit 2)."""


def base_seed() -> int:
    try:
        return int(os.environ.get("VERIF_SEED", "0"))
    except ValueError:
        return 0


def seed_for(*parts: object) -> int:
    """Stable 63-bit seed from VERIF_SEED and a cell id (never Python's hash())."""
    text = "\x1f".join(str(p) for p in (base_seed(), *parts)).encode()
    a = zlib.crc32(text)
    b = zlib.adler32(text[::-1])
    return ((a << 31) ^ b) & 0x7FFFFFFFFFFFFFFF


def _fresh_pycache() -> None:
    """Redirect byte-code so that no stale __pycache__ under the repo is ever read:
    every run compiles the sources of the current working tree."""
    if os.environ.get("VCHECK_PYCACHE"):
        sys.pycache_prefix = os.environ["VCHECK_PYCACHE"]
        return
    root = VERIF / ".cache"
    root.mkdir(exist_ok=True)
    d = root / f"pyc-{os.getpid()}"
    d.mkdir(exist_ok=True)
    os.environ["VCHECK_PYCACHE"] = str(d)
    os.environ["PYTHONPYCACHEPREFIX"] = str(d)
    sys.pycache_prefix = str(d)
    atexit.register(shutil.rmtree, str(d), True)


_done = False


def setup() -> None:
    """Put the repository's sources first on sys.path and verify the import origin."""
    global _done
    if _done:
        return
    _fresh_pycache()
    os.environ.setdefault("NUMBA_DISABLE_PERFORMANCE_WARNINGS", "1")
    if not (SRC / "vector" / "__init__.py").exists():
        raise HarnessError(f"no vector sources under {SRC}")
    sys.path.insert(0, str(SRC))
    if str(VERIF) not in sys.path:
        sys.path.insert(1, str(VERIF))
    import vector  # noqa: PLC0415

    origin = pathlib.Path(vector.__file__).resolve()
    if SRC not in origin.parents:
        raise HarnessError(f"vector imported from {origin}, expected under {SRC}")
    _done = True


def reexec_with_hashseed() -> None:
    """Re-execute the driver with PYTHONHASHSEED=0 so that nothing depends on the
    per-process string hash randomisation."""
    if os.environ.get("PYTHONHASHSEED") != "0":
        os.environ["PYTHONHASHSEED"] = "0"
        os.execv(sys.executable, [sys.executable, *sys.argv])
