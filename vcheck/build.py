"""Builders for the array backends (NumPy structured arrays, Awkward arrays/records) from
lists of stored coordinate rows, and readers that turn results back into rows."""

from __future__ import annotations

import numpy

from vcheck import env

env.setup()

import awkward as ak  # noqa: E402
import vector  # noqa: E402
from vector.backends import numpy as vnp  # noqa: E402

from vcheck import refmodel as R  # noqa: E402

MOM_SPELL = {"x": "px", "y": "py", "rho": "pt", "z": "pz", "t": "E", "tau": "mass"}
MOM_ALT = {"t": ("E", "e", "energy"), "tau": ("mass", "M", "m")}

NP_GEN = {2: vnp.VectorNumpy2D, 3: vnp.VectorNumpy3D, 4: vnp.VectorNumpy4D}
NP_MOM = {2: vnp.MomentumNumpy2D, 3: vnp.MomentumNumpy3D, 4: vnp.MomentumNumpy4D}


def names_for(system, spelling="generic", alt=0):
    """field names for a coordinate system; spelling 'momentum' uses px/py/pt/pz/E/mass
    (alt selects among E/e/energy and mass/M/m)"""
    out = []
    for n in R.coord_names(system):
        if spelling == "momentum" and n in MOM_SPELL:
            if n in MOM_ALT:
                out.append(MOM_ALT[n][alt % 3])
            else:
                out.append(MOM_SPELL[n])
        else:
            out.append(n)
    return tuple(out)


def np_array(system, rows, momentum=False, shape=None, spelling=None, dtype=numpy.float64, extra=False, perm=0):
    """NumPy vector array storing `rows` (list of coordinate tuples) in `system`; extra: a non-coordinate int field; perm: the
    order in which the structured dtype lists the fields (0 canonical, 1 reversed, 2 rotated by one - any order is a valid array)"""
    d = len(system) + 1
    names = names_for(system, spelling or ("momentum" if momentum else "generic"))
    listed = list(names) if perm % 3 == 0 else (list(names)[::-1] if perm % 3 == 1 else list(names)[1:] + list(names)[:1])
    # dtype: one dtype for every column, or a list with one dtype per coordinate (in canonical order)
    per = dict(zip(names, dtype)) if isinstance(dtype, (list, tuple)) else {n: dtype for n in names}
    dt = [(n, per[n]) for n in listed] + ([("charge", numpy.int64)] if extra else [])
    arr = numpy.zeros(len(rows), dtype=dt)
    for j, n in enumerate(names):
        arr[n] = [r[j] for r in rows]
    if extra:
        arr["charge"] = numpy.arange(len(rows)) % 3 - 1
    if shape is not None:
        arr = arr.reshape(shape)
    cls = (NP_MOM if momentum else NP_GEN)[d]
    return arr.view(cls)


def np_rows(v):
    """(system, rows) of a NumPy vector array, read from the raw structured array."""
    from vcheck import obs

    system = obs.system_of(v)
    names = R.coord_names(system)
    raw = numpy.asarray(v).view(numpy.ndarray)
    cols = [numpy.asarray(raw[n]).reshape(-1) for n in names]
    rows = [tuple(c[i] for c in cols) for i in range(len(cols[0]))] if cols else []
    return system, rows


def _behavior():
    """per-array behaviors, or None once vector.register_awkward() has installed them globally"""
    return None if getattr(vector, "_awkward_registered", False) else vector.backends.awkward.behavior


def ak_record_name(d, momentum):
    return ("Momentum" if momentum else "Vector") + f"{d}D"


def ak_flat(system, rows, momentum=False, spelling="generic", extra=None, alt=0, dtype=numpy.float64):
    """flat Awkward vector array (records at depth 1)"""
    d = len(system) + 1
    names = names_for(system, spelling, alt)
    cols = {n: numpy.array([r[j] for r in rows], dtype=dtype) for j, n in enumerate(names)}
    if extra:
        for k, vals in extra.items():
            cols[k] = vals if isinstance(vals, ak.Array) else numpy.asarray(vals)
    if len(rows) == 0:
        cols = {k: numpy.asarray(v, dtype=numpy.float64) for k, v in cols.items()}
    return ak.zip(cols, with_name=ak_record_name(d, momentum), behavior=_behavior())


def ak_jagged(flat, counts):
    return ak.unflatten(flat, counts)


def ak_with_none(arr, mask, axis_level="record"):
    """option-type: mask[i] True -> element i missing"""
    return ak.mask(arr, ~numpy.asarray(mask, dtype=bool))


def ak_rows(v):
    """(system, rows) of an Awkward vector array (any depth), flattening lists; missing
    elements are dropped."""
    from vcheck import obs

    system = obs.system_of(v)
    names = R.coord_names(system)
    cols = []
    for n in names:
        c = v[n] if n in ak.fields(v) else getattr(v, n)
        c = ak.flatten(c, axis=None) if isinstance(c, ak.Array) else numpy.atleast_1d(numpy.asarray(c))
        cols.append(ak.to_numpy(ak.drop_none(c)) if isinstance(c, ak.Array) else c)
    rows = [tuple(c[i] for c in cols) for i in range(len(cols[0]))] if cols else []
    return system, rows


def to_list(x):
    """flatten a scalar / NumPy array / Awkward array result to a flat Python list"""
    if isinstance(x, ak.Array):
        return ak.to_list(ak.flatten(x, axis=None))
    if isinstance(x, ak.Record):
        return [x]
    if isinstance(x, numpy.ndarray):
        return x.reshape(-1).tolist()
    if isinstance(x, numpy.generic):
        return [x.item()]
    return [x]


def make(backend, system, rows, momentum=False):
    """vector(s) on `backend` in {object, numpy, awkward}; object -> list of objects"""
    from vcheck import mpbackend

    if backend == "object":
        return [mpbackend.make(system, tuple(float(c) for c in r), momentum, False) for r in rows]
    if backend == "numpy":
        return np_array(system, rows, momentum)
    if backend == "awkward":
        return ak_flat(system, rows, momentum)
    raise KeyError(backend)


# ----------------------------------------------------------------------------- layouts
N_ELEMS = 6
NP_LAYOUTS = ("np1", "np2")
NP_VIEW_LAYOUTS = ("np1v", "np2T", "np1s")
AK_LAYOUTS = ("flat", "jagged", "nested", "optrec", "optlist", "regular")
OPT_MASK = [False, True, False, False, True, False]  # True = missing element (optrec)
JAG_COUNTS = [2, 0, 3, 1]
NEST_COUNTS = [2, 1, 0, 1]
# optlist: a jagged array [[e0,e1], None, [e2,e3,e4], [e5]]


def present_indices(layout):
    if layout == "optrec":
        return [i for i, m in enumerate(OPT_MASK) if not m]
    if layout == "np2T":
        return [0, 2, 4, 1, 3, 5]  # C-order traversal of the transposed (3,2) base
    return list(range(N_ELEMS))


def shape_values(layout, values, as_option=True):
    """arrange N_ELEMS per-element plain values in the structure of `layout`"""
    vals = list(values)
    if layout == "np1":
        return numpy.array(vals)
    if layout == "np2":
        return numpy.array(vals).reshape(2, 3)
    if layout in ("np1v", "np1s"):
        return numpy.array(vals)
    if layout == "np2T":
        return numpy.array(vals).reshape(3, 2).T
    arr = ak.Array(numpy.array(vals))
    if layout == "flat":
        return arr
    if layout == "optrec":
        return ak.mask(arr, ~numpy.array(OPT_MASK)) if as_option else arr
    if layout == "jagged":
        return ak.unflatten(arr, JAG_COUNTS)
    if layout == "nested":
        return ak.unflatten(ak.unflatten(arr, JAG_COUNTS), NEST_COUNTS)
    if layout == "regular":
        return ak.to_regular(ak.unflatten(arr, 3))
    if layout == "optlist":
        j = ak.unflatten(arr, [2, 3, 1])
        return ak.Array([j[0], None, j[1], j[2]]) if as_option else ak.unflatten(arr, [2, 0, 3, 1])
    raise KeyError(layout)


def build_layout(layout, system, rows, momentum=False, spelling="generic", extra=False, alt=0, dtype=numpy.float64):
    """vector array in the given layout holding N_ELEMS rows"""
    assert len(rows) == N_ELEMS
    d = len(system) + 1
    if layout in NP_LAYOUTS:
        # (alt: the spelling alternates of Awkward records; for NumPy the order in which the dtype lists its fields)
        a = np_array(system, rows, momentum, spelling=spelling if spelling == "momentum" else None, dtype=dtype, extra=bool(extra), perm=alt)
        return a.reshape(2, 3) if layout == "np2" else a
    if layout in NP_VIEW_LAYOUTS:
        # views sharing memory with a larger live base array (aliasing between result assembly and operand storage)
        if layout == "np1v":
            base = np_array(system, [r for row in rows for r in (row, tuple(-7.25 for _ in row))], momentum, dtype=dtype)
            return base[::2]
        if layout == "np2T":
            base = np_array(system, rows, momentum, dtype=dtype).reshape(3, 2)
            return base.T
        if layout == "np1s":
            base = np_array(system, [tuple(3.5 for _ in rows[0])] * 2 + list(rows) + [tuple(1.25 for _ in rows[0])], momentum, dtype=dtype)
            return base[2:-1]
    ex = {"charge": numpy.array([1, -1, 0, 2, -2, 1]), "tag": numpy.array([0.5, 1.5, 2.5, 3.5, 4.5, 5.5])} if extra else None
    if extra == "redundant":
        # redundant coordinate columns of *lower* precedence than the stored ones (z > theta > eta, t > tau), as in tables that
        # carry derived quantities next to the components: they must be ignored whatever the spelling of the stored ones
        ex = {"charge": numpy.array([1, -1, 0, 2, -2, 1])}
        if d >= 3 and system[1] == "z":
            ex["theta"] = numpy.array([0.5, 1.0, 1.5, 2.0, 2.5, 0.25])
            ex["eta"] = numpy.array([0.3, -0.3, 1.2, -1.2, 0.1, 2.0])
        elif d >= 3 and system[1] == "theta":
            ex["eta"] = numpy.array([0.3, -0.3, 1.2, -1.2, 0.1, 2.0])
        if d == 4 and system[2] == "t":
            ex["tau"] = numpy.array([1.0, 2.0, 3.0, 0.5, 0.25, 4.0])
    if extra == "option":
        # an option-typed non-coordinate field that is missing for elements whose coordinates are all present
        ex["iso"] = ak.Array([0.125, None, 0.375, 0.5, None, 0.75])
    flat = ak_flat(system, rows, momentum, spelling, ex, alt, dtype=dtype)
    if layout == "flat":
        return flat
    if layout == "optrec":
        return ak.mask(flat, ~numpy.array(OPT_MASK))
    if layout == "jagged":
        return ak.unflatten(flat, JAG_COUNTS)
    if layout == "nested":
        return ak.unflatten(ak.unflatten(flat, JAG_COUNTS), NEST_COUNTS)
    if layout == "regular":
        return ak.to_regular(ak.unflatten(flat, 3))
    if layout == "optlist":
        j = ak.unflatten(flat, [2, 3, 1])
        name = ak_record_name(d, momentum)
        parts = [ak.to_list(j[0]), None, ak.to_list(j[1]), ak.to_list(j[2])]
        out = ak.Array(parts, with_name=name, behavior=_behavior())
        return out
    raise KeyError(layout)


def skeleton(x):
    """list structure with leaves replaced by 0 and missing values kept as None"""
    if isinstance(x, ak.Array):
        x = ak.to_list(x)
    elif isinstance(x, numpy.ndarray):
        return ("ndarray", x.shape)

    def rec(v):
        if v is None:
            return None
        if isinstance(v, list):
            return [rec(u) for u in v]
        return 0

    return rec(x)


def vector_skeleton(v):
    """skeleton of a vector array/record: taken from its first coordinate field"""
    if isinstance(v, numpy.ndarray):
        return ("ndarray", v.shape)
    if isinstance(v, ak.Record):
        return 0
    f = ak.fields(v)
    if not f:
        return skeleton(v)
    return skeleton(v[f[0]])


def flat_values(x):
    """flat list of present leaf values (missing dropped)"""
    if isinstance(x, ak.Array):
        return ak.to_list(ak.drop_none(ak.flatten(x, axis=None))) if x.ndim > 1 or True else ak.to_list(x)
    if isinstance(x, numpy.ndarray):
        return x.reshape(-1).tolist()
    if isinstance(x, numpy.generic):
        return [x.item()]
    return [x]
