"""Builders for the array backends (NumPy structured arrays, Awkward arrays/records) from
lists of stored coordinate rows, and readers that turn results back into rows."""

from __future__ import annotations

import numpy

from vcheck import env

env.setup()

import awkward as ak  # noqa: E402
import vector  # noqa: E402
from vector.backends import numpy as vnp  # noqa: E402

from vcheck import refmodel as R  # noqa: E402

MOM_SPELL = {"x": "px", "y": "py", "rho": "pt", "z": "pz", "t": "E", "tau": "mass"}
MOM_ALT = {"t": ("E", "e", "energy"), "tau": ("mass", "M", "m")}

NP_GEN = {2: vnp.VectorNumpy2D, 3: vnp.VectorNumpy3D, 4: vnp.VectorNumpy4D}
NP_MOM = {2: vnp.MomentumNumpy2D, 3: vnp.MomentumNumpy3D, 4: vnp.MomentumNumpy4D}


def names_for(system, spelling="generic", alt=0):
    """field names for a coordinate system; spelling 'momentum' uses px/py/pt/pz/E/mass
    (alt selects among E/e/energy and mass/M/m)"""
    out = []
    for n in R.coord_names(system):
        if spelling == "momentum" and n in MOM_SPELL:
            if n in MOM_ALT:
                out.append(MOM_ALT[n][alt % 3])
            else:
                out.append(MOM_SPELL[n])
        else:
            out.append(n)
    return tuple(out)


def np_array(system, rows, momentum=False, shape=None, spelling=None):
    """NumPy vector array storing `rows` (list of coordinate tuples) in `system`."""
    d = len(system) + 1
    names = names_for(system, spelling or ("momentum" if momentum else "generic"))
    dt = [(n, numpy.float64) for n in names]
    arr = numpy.zeros(len(rows), dtype=dt)
    for j, n in enumerate(names):
        arr[n] = [float(r[j]) for r in rows]
    if shape is not None:
        arr = arr.reshape(shape)
    cls = (NP_MOM if momentum else NP_GEN)[d]
    return arr.view(cls)


def np_rows(v):
    """(system, rows) of a NumPy vector array, read from the raw structured array."""
    from vcheck import obs

    system = obs.system_of(v)
    names = R.coord_names(system)
    raw = numpy.asarray(v).view(numpy.ndarray)
    cols = [numpy.asarray(raw[n]).reshape(-1) for n in names]
    rows = [tuple(c[i] for c in cols) for i in range(len(cols[0]))] if cols else []
    return system, rows


def ak_record_name(d, momentum):
    return ("Momentum" if momentum else "Vector") + f"{d}D"


def ak_flat(system, rows, momentum=False, spelling="generic", extra=None, alt=0):
    """flat Awkward vector array (records at depth 1)"""
    d = len(system) + 1
    names = names_for(system, spelling, alt)
    cols = {n: numpy.array([float(r[j]) for r in rows], dtype=numpy.float64) for j, n in enumerate(names)}
    if extra:
        for k, vals in extra.items():
            cols[k] = numpy.asarray(vals)
    if len(rows) == 0:
        cols = {k: numpy.asarray(v, dtype=numpy.float64) for k, v in cols.items()}
    return ak.zip(cols, with_name=ak_record_name(d, momentum), behavior=vector.backends.awkward.behavior)


def ak_jagged(flat, counts):
    return ak.unflatten(flat, counts)


def ak_with_none(arr, mask, axis_level="record"):
    """option-type: mask[i] True -> element i missing"""
    return ak.mask(arr, ~numpy.asarray(mask, dtype=bool))


def ak_rows(v):
    """(system, rows) of an Awkward vector array (any depth), flattening lists; missing
    elements are dropped."""
    from vcheck import obs

    system = obs.system_of(v)
    names = R.coord_names(system)
    cols = []
    for n in names:
        c = v[n] if n in ak.fields(v) else getattr(v, n)
        c = ak.flatten(c, axis=None) if isinstance(c, ak.Array) else numpy.atleast_1d(numpy.asarray(c))
        cols.append(ak.to_numpy(ak.drop_none(c)) if isinstance(c, ak.Array) else c)
    rows = [tuple(c[i] for c in cols) for i in range(len(cols[0]))] if cols else []
    return system, rows


def to_list(x):
    """flatten a scalar / NumPy array / Awkward array result to a flat Python list"""
    if isinstance(x, ak.Array):
        return ak.to_list(ak.flatten(x, axis=None))
    if isinstance(x, ak.Record):
        return [x]
    if isinstance(x, numpy.ndarray):
        return x.reshape(-1).tolist()
    if isinstance(x, numpy.generic):
        return [x.item()]
    return [x]


def make(backend, system, rows, momentum=False):
    """vector(s) on `backend` in {object, numpy, awkward}; object -> list of objects"""
    from vcheck import mpbackend

    if backend == "object":
        return [mpbackend.make(system, tuple(float(c) for c in r), momentum, False) for r in rows]
    if backend == "numpy":
        return np_array(system, rows, momentum)
    if backend == "awkward":
        return ak_flat(system, rows, momentum)
    raise KeyError(backend)
