"""60-digit object backend.

Subclasses of the real VectorObject*/MomentumObject* classes whose `lib` is an mpmath
adapter.  The real dispatch, the real compute variants and the real object `_wrap_result`
run on mpmath.mpf coordinates: two mathematically equal routes then agree to ~1e-55, so
oracles need no judgement about rounding.  Uses only documented protocol attributes
(`lib`, `ProjectionClass2D/3D/4D`, `GenericClass`, `MomentumClass`) and the documented
coordinate-tuple constructors."""

from __future__ import annotations

import mpmath
from mpmath import mp, mpf

mp.dps = 60

from vcheck import env  # noqa: E402

env.setup()

import vector  # noqa: E402
from vector.backends.object import (  # noqa: E402
    AzimuthalObjectRhoPhi,
    AzimuthalObjectXY,
    LongitudinalObjectEta,
    LongitudinalObjectTheta,
    LongitudinalObjectZ,
    MomentumObject2D,
    MomentumObject3D,
    MomentumObject4D,
    TemporalObjectT,
    TemporalObjectTau,
    VectorObject2D,
    VectorObject3D,
    VectorObject4D,
)


def _m(x):
    if isinstance(x, mpf):
        return x
    if isinstance(x, bool):
        return mpf(int(x))
    return mpf(x)


class MpLib:
    """The 20 names the compute layer uses, on mpmath numbers (numpy semantics)."""

    pi = mp.pi + 0
    inf = mpf("inf")

    def __eq__(self, other):
        return isinstance(other, MpLib)

    def __ne__(self, other):
        return not isinstance(other, MpLib)

    def __hash__(self):
        return 17

    def __repr__(self):
        return "MpLib"

    def sqrt(self, x):
        x = _m(x)
        if x < 0:
            return mpf("nan")
        return mpmath.sqrt(x)

    def nan_to_num(self, x, nan=0.0, posinf=None, neginf=None, copy=True):
        x = _m(x)
        if mpmath.isnan(x):
            return _m(nan)
        if x == mpf("inf"):
            return _m(posinf) if posinf is not None else mpf(1.7976931348623157e308)
        if x == mpf("-inf"):
            return _m(neginf) if neginf is not None else mpf(-1.7976931348623157e308)
        return x

    def absolute(self, x):
        return abs(_m(x))

    def copysign(self, x, y):
        x = _m(x)
        y = _m(y)
        neg = (y < 0) or (y == 0 and str(y).startswith("-"))
        return -abs(x) if neg else abs(x)

    def sin(self, x):
        return mpmath.sin(_m(x))

    def cos(self, x):
        return mpmath.cos(_m(x))

    def tan(self, x):
        return mpmath.tan(_m(x))

    def exp(self, x):
        return mpmath.exp(_m(x))

    def log(self, x):
        x = _m(x)
        if x < 0:
            return mpf("nan")
        if x == 0:
            return mpf("-inf")
        return mpmath.log(x)

    def sinh(self, x):
        return mpmath.sinh(_m(x))

    def cosh(self, x):
        return mpmath.cosh(_m(x))

    def tanh(self, x):
        return mpmath.tanh(_m(x))

    def arcsinh(self, x):
        return mpmath.asinh(_m(x))

    def arctan(self, x):
        return mpmath.atan(_m(x))

    def arctan2(self, y, x):
        return mpmath.atan2(_m(y), _m(x))

    def arcsin(self, x):
        x = _m(x)
        if abs(x) > 1:
            if abs(x) - 1 < mpf("1e-50"):
                x = mpf(1) if x > 0 else mpf(-1)
            else:
                return mpf("nan")
        return mpmath.asin(x)

    def arccos(self, x):
        x = _m(x)
        if abs(x) > 1:
            if abs(x) - 1 < mpf("1e-50"):
                x = mpf(1) if x > 0 else mpf(-1)
            else:
                return mpf("nan")
        return mpmath.acos(x)

    def maximum(self, a, b):
        a = _m(a)
        b = _m(b)
        if mpmath.isnan(a) or mpmath.isnan(b):
            return mpf("nan")
        return a if a >= b else b

    def minimum(self, a, b):
        a = _m(a)
        b = _m(b)
        if mpmath.isnan(a) or mpmath.isnan(b):
            return mpf("nan")
        return a if a <= b else b

    def sign(self, x):
        x = _m(x)
        return mpf(1) if x > 0 else (mpf(-1) if x < 0 else mpf(0))

    # names the compute layer does not use today but a behaviour-preserving rewrite legitimately could (they exist in
    # numpy and most of them in SympyLib): without them such a rewrite would stop the 60-digit tier with a harness error
    def arccosh(self, x):
        x = _m(x)
        return mpf("nan") if x < 1 else mpmath.acosh(x)

    def arctanh(self, x):
        x = _m(x)
        if abs(x) > 1:
            return mpf("nan")
        if abs(x) == 1:
            return mpf("inf") if x > 0 else mpf("-inf")
        return mpmath.atanh(x)

    def hypot(self, x, y):
        return mpmath.sqrt(_m(x) ** 2 + _m(y) ** 2)

    def square(self, x):
        return _m(x) ** 2

    def power(self, x, y):
        return _m(x) ** _m(y)

    def cbrt(self, x):
        x = _m(x)
        return -mpmath.cbrt(-x) if x < 0 else mpmath.cbrt(x)

    def log1p(self, x):
        return self.log(1 + _m(x))

    def expm1(self, x):
        return mpmath.expm1(_m(x))

    def negative(self, x):
        return -_m(x)

    def reciprocal(self, x):
        return 1 / _m(x)

    def fabs(self, x):
        return abs(_m(x))

    abs = absolute

    def fmax(self, a, b):
        a, b = _m(a), _m(b)
        return b if mpmath.isnan(a) else (a if mpmath.isnan(b) else (a if a >= b else b))

    def fmin(self, a, b):
        a, b = _m(a), _m(b)
        return b if mpmath.isnan(a) else (a if mpmath.isnan(b) else (a if a <= b else b))

    def clip(self, x, lo, hi):
        return self.minimum(self.maximum(x, lo), hi)

    def where(self, cond, a, b):
        return _m(a) if cond else _m(b)

    def isnan(self, x):
        return bool(mpmath.isnan(_m(x)))

    def isinf(self, x):
        return bool(mpmath.isinf(_m(x)))

    def isfinite(self, x):
        return bool(mpmath.isfinite(_m(x)))

    def signbit(self, x):
        x = _m(x)
        return (x < 0) or (x == 0 and str(x).startswith("-"))

    def deg2rad(self, x):
        return _m(x) * mp.pi / 180

    def rad2deg(self, x):
        return _m(x) * 180 / mp.pi

    nan = mpf("nan")
    e = mp.e + 0

    def isclose(self, a, b, rtol=1e-05, atol=1e-08, equal_nan=False):
        a = _m(a)
        b = _m(b)
        if mpmath.isnan(a) or mpmath.isnan(b):
            return bool(equal_nan and mpmath.isnan(a) and mpmath.isnan(b))
        if mpmath.isinf(a) or mpmath.isinf(b):
            return a == b
        return abs(a - b) <= _m(atol) + _m(rtol) * abs(b)


MPLIB = MpLib()


class MpVector2D(VectorObject2D):
    lib = MPLIB


class MpVector3D(VectorObject3D):
    lib = MPLIB


class MpVector4D(VectorObject4D):
    lib = MPLIB


class MpMomentum2D(MomentumObject2D):
    lib = MPLIB


class MpMomentum3D(MomentumObject3D):
    lib = MPLIB


class MpMomentum4D(MomentumObject4D):
    lib = MPLIB


_GEN = {2: MpVector2D, 3: MpVector3D, 4: MpVector4D}
_MOM = {2: MpMomentum2D, 3: MpMomentum3D, 4: MpMomentum4D}
for _d in (2, 3, 4):
    for _cls in (_GEN[_d], _MOM[_d]):
        _fl = _MOM if _cls is _MOM[_d] else _GEN
        _cls.ProjectionClass2D = _fl[2]
        _cls.ProjectionClass3D = _fl[3]
        _cls.ProjectionClass4D = _fl[4]
        _cls.GenericClass = _GEN[_d]
        _cls.MomentumClass = _MOM[_d]

AZ = {"xy": AzimuthalObjectXY, "rhophi": AzimuthalObjectRhoPhi}
LO = {"z": LongitudinalObjectZ, "theta": LongitudinalObjectTheta, "eta": LongitudinalObjectEta}
TE = {"t": TemporalObjectT, "tau": TemporalObjectTau}

F64_GEN = {2: VectorObject2D, 3: VectorObject3D, 4: VectorObject4D}
F64_MOM = {2: MomentumObject2D, 3: MomentumObject3D, 4: MomentumObject4D}


def make(system, coords, momentum=False, mp_=True):
    """Build an object vector (mp subclass or the real float64 class) storing `coords`
    (a flat tuple) in `system` = (az,) | (az, lo) | (az, lo, te) via the documented
    coordinate-tuple constructor."""
    d = len(system) + 1
    if mp_:
        cls = (_MOM if momentum else _GEN)[d]
        coords = tuple(_m(c) for c in coords)
    else:
        cls = (F64_MOM if momentum else F64_GEN)[d]
    kw = {"azimuthal": AZ[system[0]](coords[0], coords[1])}
    if d >= 3:
        kw["longitudinal"] = LO[system[1]](coords[2])
    if d == 4:
        kw["temporal"] = TE[system[2]](coords[3])
    return cls(**kw)


def available() -> bool:
    """Smoke test: the mp backend can be built and runs a dispatch on this tree."""
    try:
        v = make(("xy", "z", "t"), (1, 2, 3, 7))
        w = make(("rhophi", "eta", "tau"), (1, 2, 3, 4))
        r = v.add(w)
        return isinstance(r.x, mpf) and isinstance(v.deltaR(w), mpf)
    except Exception:
        return False
