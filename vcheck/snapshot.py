"""Bit-for-bit snapshots of operands (object vectors, NumPy vector arrays incl. the base of
a view, Awkward arrays/records, scalar-argument arrays) for C16/C20."""

from __future__ import annotations

import numpy

from vcheck import env

env.setup()

import awkward as ak  # noqa: E402
import vector  # noqa: E402

from vcheck import obs  # noqa: E402


def _float_key(x):
    try:
        return float(x).hex()
    except Exception:  # noqa: BLE001
        return repr(x)


def snap(x):
    """hashable / comparable description of everything observable about an operand"""
    if x is None:
        return None
    if isinstance(x, vector.backends.object.VectorObject):
        st = obs.stored(x)
        return ("object", type(x).__name__, obs.system_of(x), tuple(_float_key(v) for v in st),
                tuple(type(v).__name__ for v in st), id(x))
    if isinstance(x, numpy.ndarray):
        base = x.base
        bsnap = None
        if isinstance(base, numpy.ndarray):
            bsnap = (base.dtype.descr if base.dtype.names else str(base.dtype), base.shape, base.tobytes())
        names = x.dtype.names
        return ("numpy", type(x).__name__, x.dtype.descr if names else str(x.dtype), names,
                tuple((n, x.dtype.fields[n][1]) for n in names) if names else None, x.shape, x.strides,
                x.tobytes(), bsnap, bool(x.flags.writeable))
    if isinstance(x, (ak.Array, ak.Record)):
        arr = x if isinstance(x, ak.Array) else ak.Array(x.layout.array)
        form, length, bufs = ak.to_buffers(arr)
        return ("awkward", type(x).__name__, form.to_json(), int(length),
                tuple(sorted((k, numpy.asarray(v).tobytes()) for k, v in bufs.items())), tuple(ak.fields(x)),
                None if x.behavior is None else (id(x.behavior), len(x.behavior)),
                x.layout.at if isinstance(x, ak.Record) else None)
    if isinstance(x, dict):
        return ("dict", tuple((k, snap(v)) for k, v in sorted(x.items())))
    if isinstance(x, (list, tuple)):
        return ("seq", tuple(snap(v) for v in x))
    if isinstance(x, (int, float, str, bool)):
        return ("py", type(x).__name__, repr(x))
    if isinstance(x, numpy.generic):
        return ("npscalar", str(x.dtype), x.tobytes())
    return ("other", type(x).__name__, repr(x))


def diff(s1, s2):
    """human-readable first difference between two snapshots (None if identical)"""
    if s1 == s2:
        return None
    if not isinstance(s1, tuple) or not isinstance(s2, tuple) or len(s1) != len(s2):
        return f"{str(s1)[:200]} -> {str(s2)[:200]}"
    labels = {
        "object": ["kind", "class", "system", "stored", "value types", "identity"],
        "numpy": ["kind", "class", "dtype", "field names", "field offsets", "shape", "strides", "bytes", "base array", "writeable"],
        "awkward": ["kind", "class", "form", "length", "buffers", "fields", "behavior", "record index"],
    }.get(s1[0], None)
    for i, (a, b) in enumerate(zip(s1, s2)):
        if a != b:
            lab = labels[i] if labels and i < len(labels) else f"item {i}"
            if isinstance(a, bytes):
                return f"{lab} changed ({len(a)} bytes)"
            sub = diff(a, b) if isinstance(a, tuple) and isinstance(b, tuple) else f"{str(a)[:160]} -> {str(b)[:160]}"
            return f"{lab}: {sub}"
    return "differs"
