"""Backend lattice driver shared by C03, C05, C16 and C18.

A configuration fixes (operation, operand dimensions, stored systems, flavors, the backend
and layout of each operand, the form of scalar arguments, field spelling, extra fields).
`evaluate` builds the operands from a generated list of N_ELEMS element vectors on the
requested backends, runs the operation once on the arrays and once per element on plain
float64 object vectors, and returns everything observed."""

from __future__ import annotations

import math
import zlib

import numpy
from mpmath import mpf

from vcheck import build, catalog, mpbackend, obs, opcheck, refmodel as R
from vcheck.catalog import OPS

import awkward as ak  # noqa: E402
import vector  # noqa: E402
from vector._methods import Momentum  # noqa: E402

N = build.N_ELEMS

A_KINDS = ("object", "np1", "np2", "flat", "jagged", "nested", "optrec", "optlist", "regular", "record")
ARRAY_KINDS = build.NP_LAYOUTS + build.NP_VIEW_LAYOUTS + build.AK_LAYOUTS


def backend_of_kind(kind):
    if kind == "object":
        return "object"
    if kind in build.NP_LAYOUTS or kind in build.NP_VIEW_LAYOUTS:
        return "numpy"
    return "awkward"


def classify(x):
    """backend kind of a result"""
    if isinstance(x, ak.Array):
        return "awkward-array" if isinstance(x, vector.backends.awkward.VectorAwkward) else "plain-ak-array"
    if isinstance(x, ak.Record):
        return "awkward-record" if isinstance(x, vector.backends.awkward.VectorAwkward) else "plain-ak-record"
    if isinstance(x, vector.backends.numpy.VectorNumpy):
        return "numpy"
    if isinstance(x, vector.backends.object.VectorObject):
        return "object"
    if isinstance(x, numpy.ndarray):
        return "ndarray"
    return "scalar"


def rows_for(system, carts, d):
    out = []
    for c in carts:
        cc = tuple(mpf(x) for x in c[:d])
        if not R.representable(system, cc):
            return None
        r = tuple(float(x) for x in R.from_cartesian(system, cc))
        if any(math.isnan(x) or math.isinf(x) for x in r):
            return None
        out.append(r)
    return out


def make_operand(kind, system, rows, momentum, spelling="generic", extra=False, alt=0, index=0, dtype=None):
    """operand of the requested kind; single-vector kinds use rows[index]; dtype 'i64' stores (integer-valued) rows in
    int64 columns on the array kinds"""
    if kind == "object":
        return mpbackend.make(system, rows[index], momentum, False)
    dt = numpy.float64
    if dtype == "i64":
        rows = [tuple(float(round(x)) for x in r) for r in rows]
        dt = numpy.int64
    if dtype == "i64s" and kind in build.NP_LAYOUTS and len(system) == 3:
        # int64 spatial columns next to a float64 temporal one (a fractional time must survive every operation)
        rows = [tuple(float(round(x)) for x in r[:3]) + (r[3],) for r in rows]
        dt = [numpy.int64, numpy.int64, numpy.int64, numpy.float64]
    if dtype == "be" and kind in build.NP_LAYOUTS + build.NP_VIEW_LAYOUTS:
        dt = numpy.dtype(">f8")  # non-native byte order (files written on another architecture); Awkward rejects such buffers
    if kind == "record":
        flat = build.ak_flat(system, rows, momentum, spelling, None, alt, dtype=dt)
        return flat[index]
    return build.build_layout(kind, system, rows, momentum, spelling, extra, alt, dtype=dt)


def scalar_args(op, elems, form, kind):
    """scalar arguments for the array call: 'py' = the first element's values for all
    elements; 'arr' = per-element arrays in the structure of the first operand"""
    out = {}
    per_elem = []
    for i in range(N):
        per_elem.append(dict(elems[i]["s"] if form == "arr" else elems[0]["s"]))
    for name in op.scalars:
        k = catalog.SCALAR_KIND[name]
        vals = [pe[name] for pe in per_elem]
        if k == "order" or form == "py" or kind in ("object", "record"):
            out[name] = vals[0]
            for pe in per_elem:
                pe[name] = vals[0]
        elif k.startswith("matrix"):
            out[name] = {kk: build.shape_values(kind, [v[kk] for v in vals], as_option=False) for kk in vals[0]}
        elif k == "quat":
            out[name] = [build.shape_values(kind, [v[i] for v in vals], as_option=False) for i in range(4)]
        else:
            out[name] = build.shape_values(kind, vals, as_option=False)
    return out, per_elem


def read_vector_rows(r):
    """-> (system, rows) for any vector result, read through the coordinate containers
    (.azimuthal/.longitudinal/.temporal .elements); rows flat, missing dropped"""
    system = obs.system_of(r)
    kind = classify(r)
    els = obs.stored(r)
    if kind == "object":
        return system, [tuple(els)]
    if kind in ("awkward-record", "plain-ak-record"):
        return system, [tuple(els)]
    if kind == "numpy":
        cols = [numpy.asarray(e).view(numpy.ndarray).reshape(-1).tolist() for e in els]
    else:
        cols = [build.flat_values(e) for e in els]
    return system, [tuple(c[i] for c in cols) for i in range(len(cols[0]))]


class Obs:
    pass


def evaluate(cfg, elems, want_ref=True, before=None):
    """Run one configuration.  Returns an Obs with fields:
    skipped (reason) | exc (exception of the array call) | result, kind, operands (a, b),
    ref (list per present element of read_result tuples or ('exc', e)), present (indices)"""
    o = Obs()
    op = catalog.get(cfg["op"])
    da, db = cfg["da"], cfg["db"]
    sa = opcheck.parse_system(cfg["sa"])
    sb = opcheck.parse_system(cfg["sb"]) if cfg.get("sb") else None
    ka, kb = cfg["ka"], cfg.get("kb")
    ma = cfg["fa"] == "m" or op.momentum
    mb = cfg.get("fb") == "m"
    o.skipped = None
    rows_a = rows_for(sa, [e["a"]["c"] for e in elems], da)
    rows_b = rows_for(sb, [e["b"]["c"] for e in elems], db) if db else None
    if rows_a is None or (db and rows_b is None):
        o.skipped = "operand_not_representable"
        return o
    # regular-domain preconditions on every element (value comparisons only make sense there)
    o.pre = []
    for i in range(N):
        a = tuple(mpf(x) for x in elems[i]["a"]["c"][:da])
        b = tuple(mpf(x) for x in elems[i]["b"]["c"][:db]) if db else None
        try:
            o.pre.append(bool(op.pre(a, b, opcheck.mp_scalars(elems[i]["s"]))))
        except Exception:  # noqa: BLE001
            o.pre.append(False)
    poison = cfg.get("poison")
    if poison:
        # non-finite stored values (missing-data markers, results of singular earlier steps) in one operand
        tgt = rows_a if poison["which"] == "a" or not db else rows_b
        tgt[:] = [list(r) for r in tgt]
        for (i_, j_, val_) in poison["cells"]:
            tgt[i_ % len(tgt)][j_ % len(tgt[0])] = {"nan": math.nan, "inf": math.inf, "-inf": -math.inf}[val_]
        tgt[:] = [tuple(r) for r in tgt]
    sp_a = cfg.get("spa", "generic")
    sp_b = cfg.get("spb", "generic")
    A = make_operand(ka, sa, rows_a, ma, sp_a, cfg.get("extra", False), cfg.get("alt", 0), dtype=cfg.get("dtype_a"))
    B = None
    if db:
        B = make_operand(kb, sb, rows_b, mb, sp_b, False, cfg.get("alt", 0), dtype=cfg.get("dtype_b"))
    lead = ka if ka in ARRAY_KINDS else (kb if kb in ARRAY_KINDS else ka)
    sc, per_elem = scalar_args(op, elems, cfg.get("scal", "py"), lead)
    o.A, o.B, o.sc, o.rows_a, o.rows_b, o.per_elem = A, B, sc, rows_a, rows_b, per_elem
    o.lead = lead
    # which elements are present in the result and which operand element each one pairs with
    if lead in ARRAY_KINDS:
        o.present = build.present_indices(lead)
        if db and kb in ARRAY_KINDS and ka in ARRAY_KINDS and kb != ka:
            pb = set(build.present_indices(kb))
            o.present = [i for i in o.present if i in pb]
    else:
        o.present = [0]
    o.pair = [(i if ka in ARRAY_KINDS else 0, (i if kb in ARRAY_KINDS else 0) if db else None) for i in o.present]
    o.exc = None
    if before is not None:
        before(o)
    try:
        o.result = (cfg.get("_call") or op.call)(A, B, sc)
    except Exception as e:  # noqa: BLE001
        o.exc = e
        o.result = None
    o.kind = classify(o.result) if o.exc is None else None
    o.ref = []
    if want_ref:
        for (ia, ib), ipres in zip(o.pair, o.present):
            va = mpbackend.make(sa, rows_a[ia], ma, False)
            vb = mpbackend.make(sb, rows_b[ib], mb, False) if db else None
            s = per_elem[ipres] if lead in ARRAY_KINDS else per_elem[0]
            try:
                r = op.call(va, vb, s)
                o.ref.append(("ok", r))
            except Exception as e:  # noqa: BLE001
                o.ref.append(("exc", e))
    return o


def pick(seq, key, salt=""):
    return seq[zlib.crc32(f"{key}|{salt}".encode()) % len(seq)]
