"""Observation helpers: read what a vector stores, independent of the library's own
accessors (only `.azimuthal/.longitudinal/.temporal` containers and their `.elements`)."""

from __future__ import annotations

from mpmath import mpf

from vcheck import env

env.setup()

import vector  # noqa: E402
from vector._methods import (  # noqa: E402
    AzimuthalRhoPhi,
    AzimuthalXY,
    LongitudinalEta,
    LongitudinalTheta,
    LongitudinalZ,
    Momentum,
    TemporalT,
    TemporalTau,
    Vector2D,
    Vector3D,
    Vector4D,
)

from vcheck import mpbackend, refmodel as R  # noqa: E402

_AZ = ((AzimuthalXY, "xy"), (AzimuthalRhoPhi, "rhophi"))
_LO = ((LongitudinalZ, "z"), (LongitudinalTheta, "theta"), (LongitudinalEta, "eta"))
_TE = ((TemporalT, "t"), (TemporalTau, "tau"))


def dim_of(v):
    if isinstance(v, Vector4D):
        return 4
    if isinstance(v, Vector3D):
        return 3
    if isinstance(v, Vector2D):
        return 2
    return None


def _name(container, table):
    for cls, n in table:
        if isinstance(container, cls):
            return n
    raise TypeError(f"unknown coordinate container {type(container)}")


def system_of(v):
    d = dim_of(v)
    out = [_name(v.azimuthal, _AZ)]
    if d >= 3:
        out.append(_name(v.longitudinal, _LO))
    if d == 4:
        out.append(_name(v.temporal, _TE))
    return tuple(out)


def stored(v):
    d = dim_of(v)
    out = tuple(v.azimuthal.elements)
    if d >= 3:
        out += tuple(v.longitudinal.elements)
    if d == 4:
        out += tuple(v.temporal.elements)
    return out


def cart_of(v):
    """canonical Cartesian (mp) of an object vector via the reference converters"""
    return R.to_cartesian(system_of(v), stored(v))


def is_momentum(v):
    return isinstance(v, Momentum)


def build(system, cart, mp_=True, momentum=False):
    """Express canonical Cartesian `cart` (floats) in `system` with the reference
    converters at 60 digits and build the object vector.  Returns (vector, exact_cart)
    where exact_cart is the Cartesian meaning of exactly what the vector stores."""
    d = len(system) + 1
    c = tuple(mpf(x) for x in cart[:d])
    st = R.from_cartesian(system, c)
    if mp_:
        return mpbackend.make(system, st, momentum, True), c
    stf = tuple(float(x) for x in st)
    return mpbackend.make(system, stf, momentum, False), R.to_cartesian(system, stf)


def finite(x):
    import mpmath

    try:
        return bool(mpmath.isfinite(mpf(x)))
    except Exception:
        return False
