"""Shared machinery for properties that evaluate catalogued operations on object vectors
(C01, C02, C09-C11, C13): case strategies per operation, operand construction, result
reading and comparison."""

from __future__ import annotations

import mpmath
from hypothesis import strategies as st
from mpmath import mpf

from vcheck import catalog, gen, obs, refmodel as R
from vcheck.catalog import OPS

MP_TOL = mpf("1e-40")
F64_TOL = mpf("1e-9")

CART = {2: ("xy",), 3: ("xy", "z"), 4: ("xy", "z", "t")}


def parse_system(s):
    return tuple(s.split("_"))


def scalar_strategy(kind, mode):
    moderate = mode == "f64"
    if kind == "angle":
        return st.floats(-10.0, 10.0) if moderate else gen.angle()
    if kind == "factor":
        return gen.factor()
    if kind == "beta":
        return gen.moderate_beta() if moderate else gen.beta()
    if kind == "gamma":
        return gen.moderate_gamma() if moderate else gen.gamma()
    if kind == "tol":
        return gen.tolerance()
    if kind == "matrix2":
        return gen.matrix(2)
    if kind == "matrix3":
        return gen.matrix(3)
    if kind == "matrix4":
        return gen.matrix(4)
    if kind == "quat":
        return gen.quaternion()
    raise KeyError(kind)


def case_strategy(op, db, mode="mp", order=None, strata=None, strata_b=None):
    """mode 'mp': all regular strata; mode 'f64': the well-conditioned stratum only."""
    if strata is None:
        strata = ("moderate",) if mode == "f64" else gen.REGULAR
    parts = {}
    if op.other is None:
        parts["a"] = gen.vec(strata)
        parts["b"] = st.none()
        pairs = None
    elif "boost" in op.tags:
        if db == 3:
            pairs = st.builds(lambda a, b: {"rel": "independent", "a": a, "b": {"stratum": "beta3", "c": [*b, 0.0]}},
                              gen.vec(strata), gen.beta3(moderate=(mode == "f64")))
        else:
            bstrata = strata_b or (("moderate",) if mode == "f64" else gen.TIMELIKE_FWD)
            pairs = gen.pair(strata, relations=("independent", "independent", "equal"), strata_b=bstrata)
    elif "axis" in op.tags:
        pairs = gen.pair(strata, relations=("independent", "independent", "parallel", "perpendicular"), strata_b=strata_b)
    elif op.name in ("equal", "not_equal", "isclose"):
        pairs = gen.pair(strata, relations=("independent", "equal"), strata_b=strata_b)
    else:
        pairs = gen.pair(strata, strata_b=strata_b)
    sc = {}
    for name in op.scalars:
        kind = catalog.SCALAR_KIND[name]
        if kind == "order":
            sc[name] = st.just(order) if order else st.sampled_from(gen.EULER_ORDERS)
        elif op.name == "isclose":
            sc[name] = st.one_of(st.just(0.0), st.floats(-12.0, -6.0).map(lambda e: 10.0**e))
        else:
            sc[name] = scalar_strategy(kind, mode)
    scs = st.fixed_dictionaries(sc)
    if "causal_pred" in op.tags:
        # half of the tolerances are tied to the operand: a multiple of |t^2 - mag^2| on either side of 1, so that the
        # decision is far from its threshold and still depends on the *scale* on which the interval is compared
        def tie(a, s_, k):
            if k is not None:
                c = a["c"]
                s_ = dict(s_, tolerance=abs(c[3] ** 2 - c[0] ** 2 - c[1] ** 2 - c[2] ** 2) * k)
            return {"a": a, "b": None, "s": s_, "rel": "unary"}

        return st.builds(tie, parts["a"], scs, st.sampled_from((None, None, None, 0.2, 0.5, 2.0, 5.0)))
    if pairs is None:
        return st.fixed_dictionaries({"a": parts["a"], "b": st.none(), "s": scs, "rel": st.just("unary")})
    return st.builds(lambda p, s: {"a": p["a"], "b": p["b"], "s": s, "rel": p["rel"]}, pairs, scs)


STRATA_BY_DIM = {
    2: ("octant", "x_or_y_small", "phi_special"),
    3: ("octant", "moderate", "near_z_axis", "near_xy_plane", "x_or_y_small", "phi_special"),
    4: gen.REGULAR,
}


def bundle_strategy(op, da, db, mode="mp", order=None, repeat=1):
    """One sub-case per stratum of the first operand (deterministic stratum coverage):
    a case is the list of those sub-cases."""
    if mode == "f64":
        strata = ("moderate",) * 3
    else:
        strata = STRATA_BY_DIM[max(da, db or 0) if op.other in ("same", "4") else da]
    parts = [case_strategy(op, db, mode, order, strata=(s,)) for s in strata for _ in range(repeat)]
    return st.tuples(*parts).map(list)


def canon(case, da, db):
    a = tuple(mpf(x) for x in case["a"]["c"][:da])
    b = tuple(mpf(x) for x in case["b"]["c"][:db]) if (case.get("b") is not None and db) else None
    return a, b


def mp_scalars(s):
    """scalars as given to the library in the mp tier (floats are exact binary values)"""
    out = {}
    for k, v in s.items():
        if isinstance(v, float):
            out[k] = mpf(v)
        elif isinstance(v, dict):
            out[k] = {kk: mpf(vv) for kk, vv in v.items()}
        elif isinstance(v, list):
            out[k] = [mpf(x) for x in v]
        else:
            out[k] = v
    return out


def nonzero_components(*vs):
    for v in vs:
        if v is None:
            continue
        for p in v:
            if p == 0:
                return False
    return True


class CallRaised(Exception):
    def __init__(self, exc):
        super().__init__(repr(exc))
        self.exc = exc


def call(op, v, w, s):
    """Invoke the public method; library exceptions are wrapped (never confused with
    harness errors)."""
    try:
        return op.call(v, w, s)
    except Exception as e:  # noqa: BLE001
        raise CallRaised(e) from e


def read_result(op, r):
    """-> ('vec', system, stored, cart) | ('scalar', value) | ('bool', value)"""
    if op.result == "vec":
        sysr = obs.system_of(r)
        stv = obs.stored(r)
        return ("vec", sysr, stv, R.to_cartesian(sysr, stv))
    if op.result == "bool":
        return ("bool", bool(r))
    return ("scalar", r)


def close(x, y, tol, scale):
    x, y = R.M(x), R.M(y)
    if mpmath.isnan(x) or mpmath.isnan(y):
        return bool(mpmath.isnan(x) and mpmath.isnan(y))
    if mpmath.isinf(x) or mpmath.isinf(y):
        return x == y
    return abs(x - y) <= tol * scale


def vec_close(c1, c2, tol, scale, n=None):
    n = len(c1) if n is None else n
    if len(c1) != len(c2):
        return False
    return all(close(c1[i], c2[i], tol, scale) for i in range(n))


def vec_equiv(system, stored, ref_cart, tol, scale, n=None):
    """Does the vector stored as (system, stored) denote ref_cart?  Compared in Cartesian components, or - when that
    direction is ill-conditioned (t recovered from tau next to t=0, z from theta/eta next to the axis) - in the stored
    coordinates of `system` obtained from ref_cart.  A genuine discrepancy fails both."""
    cart = R.to_cartesian(system, stored)
    if vec_close(cart, ref_cart, tol, scale, n):
        return True
    if n is not None and n != len(ref_cart):
        return False
    try:
        if not R.representable(system, ref_cart):
            return False
        want = R.from_cartesian(system, ref_cart)
    except ZeroDivisionError:
        return False
    names = R.coord_names(system)
    for nm, g, w in zip(names, stored, want):
        if nm == "phi":
            if not R.angle_close(g, w, tol * 4):
                return False
        elif nm in ("theta", "eta"):
            if not close(g, w, tol * 4, 1):
                return False
        elif not close(g, w, tol, scale):
            return False
    return True


def fmt(x):
    if isinstance(x, (tuple, list)):
        return "(" + ", ".join(fmt(p) for p in x) + ")"
    try:
        return mpmath.nstr(mpf(x), 20)
    except Exception:  # noqa: BLE001
        return repr(x)


def qualifiers(a, b=None):
    """Input-region qualifiers appended to a violation kind, so that a recorded finding
    can be pinned to the input region in which it occurs (e.g. value@t<0)."""
    out = []
    for name, v in (("", a), ("b.", b)):
        if v is None or len(v) < 4:
            continue
        if v[3] < 0:
            out.append(f"{name}t<0")
        if v[3] * v[3] < v[2] * v[2]:
            out.append(f"{name}t2<z2")
        elif R.tau2(v) < 0:
            out.append(f"{name}spacelike")
    return "".join("@" + o for o in out)


def lossy_temporal(opname, result_system, ref_cart, operand_systems):
    """add / subtract: the sum or difference came back tau-stored (which cannot hold a negative time component) although
    its exact time component is negative and one of the operands stored t - the loss is then not a consequence of the
    operands' own storage, and the result must be compared (and found wrong) instead of being excluded"""
    if opname not in ("add", "subtract", "a+b", "a-b", "__add__", "__sub__"):
        return False
    if len(result_system) != 3 or result_system[2] != "tau" or len(ref_cart) < 4:
        return False
    if not (R.M(ref_cart[3]) < 0):
        return False
    return any(s is not None and len(s) == 3 and s[2] == "t" for s in operand_systems)
