"""Helpers for algebraic-law properties (C09, C10, C11): build object vectors (60-digit
or float64) from canonical Cartesian values in a requested stored system, evaluate
library calls, and compare results through the reference converters."""

from __future__ import annotations

import mpmath
from mpmath import mpf

from vcheck import mpbackend, obs, opcheck, refmodel as R
from vcheck.findings import Violation


class Skip(Exception):
    """the sub-case is outside the law's domain (counted as excluded)"""

    def __init__(self, reason):
        super().__init__(reason)
        self.reason = reason


class Env:
    def __init__(self, ctx, cell, mp_, law, variant):
        self.ctx = ctx
        self.cell = cell
        self.mp = mp_
        self.law = law
        self.variant = variant
        self.backend = "object-mp" if mp_ else "object-f64"
        self.base_tol = opcheck.MP_TOL if mp_ else opcheck.F64_TOL
        self.inputs = []

    # ---- construction ------------------------------------------------------------
    def vec(self, system, cart, momentum=False):
        if isinstance(system, str):
            system = opcheck.parse_system(system)
        d = len(system) + 1
        c = tuple(mpf(x) for x in cart[:d])
        if not R.representable(system, c):
            raise Skip("operand_not_representable")
        try:
            v, exact = obs.build(system, c, self.mp, momentum)
        except ZeroDivisionError:
            raise Skip("operand_not_representable") from None
        self.inputs.append((R.sysname(system), [float(x) for x in c]))
        return v

    def num(self, x):
        return mpf(x) if self.mp else float(x)

    # ---- calling -----------------------------------------------------------------
    def call(self, what, f):
        try:
            return f()
        except ZeroDivisionError:
            raise Skip("singular") from None
        except Skip:
            raise
        except Violation:
            raise
        except Exception as e:  # noqa: BLE001
            self.ctx.fail("exception", f"{self.law}: {what} raised {e!r}; inputs={self.inputs}", op=self.law,
                          variant=self.variant, backend=self.backend)
            raise Skip("exception") from None

    # ---- reading -----------------------------------------------------------------
    def cart(self, v):
        return obs.cart_of(v)

    def check_representable(self, v, ref_cart, opname=None):
        """the exact result must be representable in the system the result came back in"""
        if opname and opcheck.lossy_temporal(opname, obs.system_of(v), ref_cart, [opcheck.parse_system(s) for s, _ in self.inputs]):
            self.fail("law", f"{opname}: the result came back stored as {R.sysname(obs.system_of(v))} {opcheck.fmt(obs.stored(v))}, which "
                      f"cannot hold its exact time component {opcheck.fmt(ref_cart[3])} although an operand stores t")
            raise Skip("reported")
        if not R.representable(obs.system_of(v), ref_cart):
            raise Skip("result_not_representable")

    # ---- comparing ---------------------------------------------------------------
    def fail(self, kind, msg):
        self.ctx.fail(kind, f"{self.law} [{self.variant}; {self.backend}]: {msg}; inputs={self.inputs}", op=self.law,
                      variant=self.variant, backend=self.backend)

    def eq_cart(self, what, c1, c2, scale, factor=1, n=None):
        tol = self.base_tol * factor
        n = min(len(c1), len(c2)) if n is None else n
        if len(c1) != len(c2) and n is None:
            self.fail("dimension", f"{what}: {len(c1)} vs {len(c2)} components")
            return False
        for i in range(n):
            if not opcheck.close(c1[i], c2[i], tol, scale):
                self.fail("law", f"{what}: {opcheck.fmt(c1)} != {opcheck.fmt(c2)} (component {i}, tol {mpmath.nstr(tol * scale, 3)})")
                return False
        return True

    def eq_vec(self, what, v1, v2, scale=None, factor=1, n=None):
        c1, c2 = self.cart(v1), self.cart(v2)
        if any(not obs.finite(x) for x in c1) and any(not obs.finite(x) for x in c2):
            raise Skip("nonfinite")
        if scale is None:
            scale = R.scale_of(c1, c2)
        # either direction of the comparison may be the well-conditioned one (t from tau next to t = 0, ...)
        tol = self.base_tol * factor
        if opcheck.vec_equiv(obs.system_of(v1), obs.stored(v1), c2, tol, scale, n) or \
                opcheck.vec_equiv(obs.system_of(v2), obs.stored(v2), c1, tol, scale, n):
            return True
        return self.eq_cart(what, c1, c2, scale, factor, n)

    def eq_num(self, what, x, y, scale=1, factor=1):
        tol = self.base_tol * factor
        if not opcheck.close(x, y, tol, scale):
            self.fail("law", f"{what}: {opcheck.fmt(x)} != {opcheck.fmt(y)} (tol {mpmath.nstr(tol * scale, 3)})")
            return False
        return True


def run_bundle(check_sub, cell, bundle, ctx):
    """common check_case body: evaluate every sub-case; Skip -> excluded"""
    for sub in bundle:
        ctx.evaluation()
        try:
            nt = check_sub(cell, sub, ctx)
        except Skip as s:
            ctx.exclude(s.reason)
            continue
        if nt:
            ctx.nontrivial(key=sub, sample=sub)
    ctx.evaluations -= 1
