"""Independent reference model in 60-digit mpmath on canonical Cartesian components.

Written from the docstrings of VectorProtocol*/docs (never imports vector._compute).
Vectors are tuples of mpf: (x, y), (x, y, z) or (x, y, z, t)."""

from __future__ import annotations

import mpmath
from mpmath import mp, mpf

mp.dps = 60

PI = mp.pi + 0
ZERO = mpf(0)
ONE = mpf(1)


def M(x):
    if isinstance(x, mpf):
        return x
    if isinstance(x, (int, float, str)):
        return mpf(x)
    if hasattr(x, "item"):  # numpy scalars
        return mpf(x.item())
    return mpf(x)


def copysign(a, b):
    return abs(a) if b >= 0 else -abs(a)


# ------------------------------------------------------------------ coordinate systems
AZ = ("xy", "rhophi")
LO = ("z", "theta", "eta")
TE = ("t", "tau")
SYSTEMS = {
    2: [(a,) for a in AZ],
    3: [(a, l) for a in AZ for l in LO],
    4: [(a, l, t) for a in AZ for l in LO for t in TE],
}
NAMES = {"xy": ("x", "y"), "rhophi": ("rho", "phi"), "z": ("z",), "theta": ("theta",), "eta": ("eta",),
         "t": ("t",), "tau": ("tau",)}


def sysname(system):
    return "_".join(system)


def coord_names(system):
    out = []
    for s in system:
        out.extend(NAMES[s])
    return tuple(out)


def to_cartesian(system, coords):
    """Stored coordinates in `system` -> canonical Cartesian tuple (mp)."""
    c = [M(v) for v in coords]
    if system[0] == "xy":
        x, y = c[0], c[1]
        rho = mpmath.sqrt(x * x + y * y)
    else:
        rho = c[0]
        x, y = rho * mpmath.cos(c[1]), rho * mpmath.sin(c[1])
    if len(system) == 1:
        return (x, y)
    if system[1] == "z":
        z = c[2]
    elif system[1] == "theta":
        tn = mpmath.tan(c[2]) if mpmath.isfinite(c[2]) else mpf("nan")
        if tn == 0:
            z = mpf("nan") if rho == 0 else (mpf("inf") if rho > 0 else mpf("-inf"))
        else:
            z = rho / tn
    else:
        z = rho * mpmath.sinh(c[2]) if not (rho == 0 and mpmath.isinf(c[2])) else mpf("nan")
    if len(system) == 2:
        return (x, y, z)
    if system[2] == "t":
        t = c[3]
    else:
        tau = c[3]
        m2 = x * x + y * y + z * z
        tt = copysign(tau * tau, tau) + m2
        t = mpf("nan") if mpmath.isnan(tt) else mpmath.sqrt(max(tt, ZERO))
    return (x, y, z, t)


def from_cartesian(system, cart):
    """Canonical Cartesian -> stored coordinates in `system` (mp).  Caller guarantees
    representability (rho>0 for theta/eta; t>=0 for tau)."""
    c = [M(v) for v in cart]
    x, y = c[0], c[1]
    rho = mpmath.sqrt(x * x + y * y)
    out = [x, y] if system[0] == "xy" else [rho, mpmath.atan2(y, x)]
    if len(system) >= 2:
        z = c[2]
        if system[1] == "z":
            out.append(z)
        elif system[1] == "theta":
            out.append(mpmath.atan2(rho, z))
        else:
            out.append(mpmath.asinh(z / rho))
    if len(system) == 3:
        t = c[3]
        if system[2] == "t":
            out.append(t)
        else:
            d = t * t - (x * x + y * y + c[2] * c[2])
            out.append(copysign(mpmath.sqrt(abs(d)), d))
    return tuple(out)


def representable(system, cart, eps=0):
    """Can `cart` be stored in `system` (C01: off the z axis for theta/eta storage,
    non-negative time for tau storage)?"""
    x, y = M(cart[0]), M(cart[1])
    if len(system) >= 2 and system[1] in ("theta", "eta"):
        if x * x + y * y <= eps:
            return False
    if len(system) == 3 and system[2] == "tau":
        if M(cart[3]) < 0:
            return False
    return True


# ------------------------------------------------------------------------- accessors
def rho2(v):
    return v[0] * v[0] + v[1] * v[1]


def rho(v):
    return mpmath.sqrt(rho2(v))


def phi(v):
    return mpmath.atan2(v[1], v[0])


def mag2(v):
    return v[0] * v[0] + v[1] * v[1] + v[2] * v[2]


def mag(v):
    return mpmath.sqrt(mag2(v))


def theta(v):
    return mpmath.atan2(rho(v), v[2])


def eta(v):
    return mpmath.asinh(v[2] / rho(v))


def costheta(v):
    return v[2] / mag(v)


def cottheta(v):
    return v[2] / rho(v)


def t2(v):
    return v[3] * v[3]


def tau2(v):
    return v[3] * v[3] - mag2(v)


def tau(v):
    d = tau2(v)
    return copysign(mpmath.sqrt(abs(d)), d)


def beta(v):
    return mag(v) / v[3]


def gamma(v):
    return v[3] / tau(v)


def rapidity(v):
    return mpmath.log((v[3] + v[2]) / (v[3] - v[2])) / 2


def Et(v):
    return v[3] * rho(v) / mag(v)


def Et2(v):
    return v[3] * v[3] * rho2(v) / mag2(v)


def Mt2(v):
    return v[3] * v[3] - v[2] * v[2]


def Mt(v):
    return mpmath.sqrt(Mt2(v))


ACCESSORS = {
    "x": lambda v: v[0], "y": lambda v: v[1], "rho": rho, "rho2": rho2, "phi": phi,
    "z": lambda v: v[2], "theta": theta, "eta": eta, "costheta": costheta, "cottheta": cottheta,
    "mag": mag, "mag2": mag2,
    "t": lambda v: v[3], "t2": t2, "tau": tau, "tau2": tau2, "beta": beta, "gamma": gamma,
    "rapidity": rapidity, "Et": Et, "Et2": Et2, "Mt": Mt, "Mt2": Mt2,
}


# ------------------------------------------------------------------------- algebra
def add(a, b):
    return tuple(p + q for p, q in zip(a, b))


def subtract(a, b):
    return tuple(p - q for p, q in zip(a, b))


def scale(a, f):
    f = M(f)
    return tuple(p * f for p in a)


def dot(a, b):
    n = min(len(a), len(b))
    if n == 4:
        return a[3] * b[3] - a[0] * b[0] - a[1] * b[1] - a[2] * b[2]
    return sum((a[i] * b[i] for i in range(n)), ZERO)


def cross(a, b):
    return (a[1] * b[2] - a[2] * b[1], a[2] * b[0] - a[0] * b[2], a[0] * b[1] - a[1] * b[0])


def norm(v):
    if len(v) == 2:
        return rho(v)
    if len(v) == 3:
        return mag(v)
    return tau(v)


def unit(v):
    n = abs(norm(v))
    return tuple(p / n for p in v)


def wrap_pi(a):
    """Wrap an angle into [-pi, pi]."""
    r = mpmath.fmod(a + PI, 2 * PI)
    if r < 0:
        r += 2 * PI
    return r - PI


def deltaphi(a, b):
    return wrap_pi(phi(a) - phi(b))


def deltaeta(a, b):
    return eta(a) - eta(b)


def deltaR2(a, b):
    return deltaphi(a, b) ** 2 + deltaeta(a, b) ** 2


def deltaR(a, b):
    return mpmath.sqrt(deltaR2(a, b))


def deltaRapidityPhi2(a, b):
    return deltaphi(a, b) ** 2 + (rapidity(a) - rapidity(b)) ** 2


def deltaRapidityPhi(a, b):
    return mpmath.sqrt(deltaRapidityPhi2(a, b))


def cosangle(a, b):
    a3, b3 = a[:3], b[:3]
    d = sum((a3[i] * b3[i] for i in range(len(a3))), ZERO)
    na = mpmath.sqrt(sum((p * p for p in a3), ZERO))
    nb = mpmath.sqrt(sum((p * p for p in b3), ZERO))
    return d / (na * nb)


def deltaangle(a, b):
    c = cosangle(a, b)
    c = max(min(c, ONE), -ONE)
    return mpmath.acos(c)


# ------------------------------------------------------------------------ rotations
def _with_rest(v, xyz):
    return tuple(xyz) + tuple(v[3:])


def rotZ(v, a):
    a = M(a)
    c, s = mpmath.cos(a), mpmath.sin(a)
    return (v[0] * c - v[1] * s, v[0] * s + v[1] * c) + tuple(v[2:])


def rotX(v, a):
    a = M(a)
    c, s = mpmath.cos(a), mpmath.sin(a)
    return _with_rest(v, (v[0], v[1] * c - v[2] * s, v[1] * s + v[2] * c))


def rotY(v, a):
    a = M(a)
    c, s = mpmath.cos(a), mpmath.sin(a)
    return _with_rest(v, (v[2] * s + v[0] * c, v[1], v[2] * c - v[0] * s))


ROT = {"x": rotX, "y": rotY, "z": rotZ}


def rotate_axis(v, axis, a):
    """Rodrigues' formula, axis normalised, active right-handed."""
    a = M(a)
    n = mag(axis)
    k = (axis[0] / n, axis[1] / n, axis[2] / n)
    c, s = mpmath.cos(a), mpmath.sin(a)
    p = v[:3]
    kxp = cross(k, p)
    kd = k[0] * p[0] + k[1] * p[1] + k[2] * p[2]
    out = tuple(p[i] * c + kxp[i] * s + k[i] * kd * (1 - c) for i in range(3))
    return _with_rest(v, out)


def rotate_euler(v, phi_, theta_, psi_, order):
    """rotate_euler(phi, theta, psi, "abc") = R_a(-psi) R_b(-theta) R_c(-phi)
    (docs/index.md + the angle assignment documented in the source comment; ROOT's
    convention)."""
    order = order.lower()
    w = ROT[order[2]](v, -M(phi_))
    w = ROT[order[1]](w, -M(theta_))
    w = ROT[order[0]](w, -M(psi_))
    return w


def rotate_nautical(v, yaw, pitch, roll):
    return rotate_euler(v, roll, pitch, yaw, "zyx")


def rotate_quaternion(v, u, i, j, k):
    """Hamilton product q v q* (unnormalised q gives |q|^2 R, as ROOT's matrix does)."""
    u, i, j, k = M(u), M(i), M(j), M(k)
    x, y, z = v[0], v[1], v[2]
    # q * (0, v)
    a = -i * x - j * y - k * z
    b = u * x + j * z - k * y
    c = u * y + k * x - i * z
    d = u * z + i * y - j * x
    # (a,b,c,d) * conj(q) = (a,b,c,d)*(u,-i,-j,-k); vector part
    xx = -a * i + b * u - c * k + d * j
    yy = -a * j + c * u - d * i + b * k
    zz = -a * k + d * u - b * j + c * i
    return _with_rest(v, (xx, yy, zz))


def transform2D(v, m):
    xx, xy, yx, yy = (M(m[k]) for k in ("xx", "xy", "yx", "yy"))
    return (xx * v[0] + xy * v[1], yx * v[0] + yy * v[1]) + tuple(v[2:])


def transform3D(v, m):
    g = lambda k: M(m[k])  # noqa: E731
    x, y, z = v[0], v[1], v[2]
    return _with_rest(
        v,
        (
            g("xx") * x + g("xy") * y + g("xz") * z,
            g("yx") * x + g("yy") * y + g("yz") * z,
            g("zx") * x + g("zy") * y + g("zz") * z,
        ),
    )


def transform4D(v, m):
    g = lambda k: M(m[k])  # noqa: E731
    x, y, z, t = v
    return (
        g("xx") * x + g("xy") * y + g("xz") * z + g("xt") * t,
        g("yx") * x + g("yy") * y + g("yz") * z + g("yt") * t,
        g("zx") * x + g("zy") * y + g("zz") * z + g("zt") * t,
        g("tx") * x + g("ty") * y + g("tz") * z + g("tt") * t,
    )


# --------------------------------------------------------------------------- boosts
def boost_beta3(v, b):
    """Active boost by velocity b (3-tuple, |b|<1)."""
    bx, by, bz = M(b[0]), M(b[1]), M(b[2])
    b2 = bx * bx + by * by + bz * bz
    g = 1 / mpmath.sqrt(1 - b2)
    bp = bx * v[0] + by * v[1] + bz * v[2]
    g2 = (g - 1) / b2 if b2 > 0 else ZERO
    return (
        v[0] + g2 * bp * bx + g * bx * v[3],
        v[1] + g2 * bp * by + g * by * v[3],
        v[2] + g2 * bp * bz + g * bz * v[3],
        g * (v[3] + bp),
    )


def to_beta3(p):
    return (p[0] / p[3], p[1] / p[3], p[2] / p[3])


def boost_p4(v, p):
    return boost_beta3(v, to_beta3(p))


def boost_axis_beta(v, axis, b):
    b = M(b)
    vec = [ZERO, ZERO, ZERO]
    vec["xyz".index(axis)] = b
    return boost_beta3(v, tuple(vec))


def beta_of_gamma(g):
    g = M(g)
    return copysign(mpmath.sqrt(1 - 1 / (g * g)), g)


def boost_axis_gamma(v, axis, g):
    return boost_axis_beta(v, axis, beta_of_gamma(g))


def neg3(p):
    return (-p[0], -p[1], -p[2]) + tuple(p[3:])


# ---------------------------------------------------------------------- comparison
def scale_of(*vals):
    s = ONE
    for v in vals:
        if isinstance(v, (tuple, list)):
            for p in v:
                if mpmath.isfinite(M(p)):
                    s = max(s, abs(M(p)))
        elif v is not None and mpmath.isfinite(M(v)):
            s = max(s, abs(M(v)))
    return s


def angle_close(a, b, tol):
    d = mpmath.fmod(M(a) - M(b), 2 * PI)
    d = min(abs(d), abs(abs(d) - 2 * PI))
    return d <= tol
