"""Known findings: genuine defects of the pinned tree that are recorded rather than
repaired (status "known"), and defects that were repaired by a `fix:` commit (status
"fixed" - these suppress nothing).  The file is read-only at run time."""

from __future__ import annotations

import fnmatch
import json

from vcheck import env

PATH = env.VERIF / "known_findings.json"


class Violation(Exception):
    """A case on which the property does not hold.

    The root-cause key (bucket) is (op, variant, backend, kind); `detail` is free text and
    `data` optional structured observations.  `case` is attached by the runner."""

    def __init__(self, kind, detail, op="*", variant="*", backend="*", data=None):
        super().__init__(f"{op}|{variant}|{backend}|{kind}: {detail}")
        self.kind = str(kind)
        self.detail = str(detail)
        self.op = str(op)
        self.variant = str(variant)
        self.backend = str(backend)
        self.data = data
        self.case = None
        self.cell = None

    @property
    def bucket(self) -> str:
        return f"{self.op}|{self.variant}|{self.backend}|{self.kind}"

    def __reduce__(self):
        return (_rebuild, (self.kind, self.detail, self.op, self.variant, self.backend, self.data, self.case, self.cell))


def _rebuild(kind, detail, op, variant, backend, data, case, cell):
    v = Violation(kind, detail, op, variant, backend, data)
    v.case = case
    v.cell = cell
    return v


_cache = None


def load():
    global _cache
    if _cache is None:
        if PATH.exists():
            _cache = json.loads(PATH.read_text()).get("findings", [])
        else:
            _cache = []
    return _cache


def match(pid: str, v: Violation):
    """Return the id of the *known* (unrepaired) finding this violation falls under."""
    for f in load():
        if f.get("status") != "known" or pid not in [f.get("property"), *f.get("also", [])]:
            continue
        m = f.get("match", {})
        if all(
            any(fnmatch.fnmatchcase(getattr(v, k), alt) for alt in str(m.get(k, "*")).split("|"))
            for k in ("op", "variant", "backend", "kind")
        ):
            return f["id"]
    return None


def by_id(fid: str):
    for f in load():
        if f["id"] == fid:
            return f
    return None
