"""Cell-wise collecting runner.

A property module (vcheck/props/cXX.py) provides

    PID, RULE, ASSUMPTIONS, LEVEL_TEXT
    cells(tier)                  -> list of JSON-able dicts, each with a unique "id"
    strategy(cell, tier)         -> hypothesis strategy producing a JSON-able case
    check_case(cell, case, ctx)  -> None; reports through ctx.fail()/ctx.nontrivial()
    examples(cell, tier)         -> number of generated cases for the cell
  optionally
    run_cell(cell, tier, ctx)    -> custom driver (stateful machines, enumerations)
    describe(cell, case)         -> JSON-able rendering of a case for evidence samples
    finalize(tier, results)      -> list[Violation] from cross-cell conditions

Every cell gets its own seeded Hypothesis run; failures are shrunk, bucketed by root-cause
key and collected, and the campaign continues with the next cell."""

from __future__ import annotations

import collections
import concurrent.futures
import hashlib
import importlib
import json
import multiprocessing
import os
import pathlib
import re
import sys
import time
import traceback

from vcheck import env
from vcheck.findings import Violation
from vcheck import findings

NPROC = int(os.environ.get("VCHECK_NPROC", "16"))


def jdump(obj) -> str:
    return json.dumps(obj, sort_keys=True, default=_json_default)


def _json_default(o):
    try:
        import numpy

        if isinstance(o, numpy.generic):
            return o.item()
        if isinstance(o, numpy.ndarray):
            return o.tolist()
    except Exception:  # pragma: no cover
        pass
    if isinstance(o, (set, frozenset)):
        return sorted(o)
    if isinstance(o, tuple):
        return list(o)
    if isinstance(o, type):
        return o.__name__
    return repr(o)


class Ctx:
    """Per-cell bookkeeping handed to check_case."""

    def __init__(self, pid, tier, cell):
        self.pid = pid
        self.tier = tier
        self.cell = cell
        self.evaluations = 0
        self.nontrivial_keys = set()
        self.strata = collections.Counter()
        self.excluded = collections.Counter()
        self.known_hits = collections.Counter()
        self.samples = []
        self.notes = collections.Counter()
        self.facts = {}
        self._case = None

    # -- reporting -----------------------------------------------------------------
    def fail(self, kind, detail, op="*", variant="*", backend="*", data=None):
        """Report a violation.  Raises unless it falls under a recorded known finding,
        in which case it is counted and the check continues behind it."""
        v = Violation(kind, detail, op, variant, backend, data)
        fid = findings.match(self.pid, v)
        if fid is not None:
            self.known_hits[fid] += 1
            return
        v.case = self._case
        v.cell = self.cell
        raise v

    def evaluation(self, n=1):
        self.evaluations += n

    def nontrivial(self, key=None, sample=None):
        """Count the current case (or an explicit sub-case key) as non-trivial."""
        k = jdump([self.cell.get("id"), self._case if key is None else key])
        h = hashlib.blake2b(k.encode(), digest_size=10).digest()
        if h not in self.nontrivial_keys:
            self.nontrivial_keys.add(h)
            if len(self.samples) < 2:
                self.samples.append(sample if sample is not None else self._case)

    def stratum(self, name):
        self.strata[name] += 1

    def exclude(self, reason):
        self.excluded[reason] += 1

    def note(self, name, n=1):
        self.notes[name] += n

    def fact(self, key, value):
        """record a (JSON-able) observation for cross-cell conditions evaluated by prop.finalize"""
        self.facts.setdefault(key, []).append(value)

    def result(self, failures):
        return {
            "cell": self.cell.get("id"),
            "evaluations": self.evaluations,
            "nontrivial": len(self.nontrivial_keys),
            "strata": dict(self.strata),
            "excluded": dict(self.excluded),
            "known_hits": dict(self.known_hits),
            "notes": dict(self.notes),
            "facts": self.facts,
            "samples": self.samples[:2],
            "failures": failures,
        }


def hyp_settings(n, shrink=True):
    import hypothesis
    from hypothesis import HealthCheck, Phase, settings

    phases = [Phase.explicit, Phase.generate]
    if shrink:
        phases.append(Phase.shrink)
    return settings(
        max_examples=max(1, n),
        database=None,
        deadline=None,
        derandomize=False,
        report_multiple_bugs=False,
        suppress_health_check=list(HealthCheck),
        phases=phases,
        print_blob=False,
        verbosity=hypothesis.Verbosity.quiet,
    )


def run_hypothesis(pid, cell, strategy, body, n, shrink=True):
    """Run `body(case)` on n generated cases; return the (shrunk) Violation or None."""
    import hypothesis
    from hypothesis import given

    # Hypothesis always starts the generate phase with the all-simplest example, which is
    # the same point for every seed: it is drawn but not evaluated, and one more example
    # is requested instead, so that every evaluated case is a seeded random draw.
    state = {"first": True}

    @hypothesis.seed(env.seed_for(pid, cell["id"]))
    @hyp_settings(n + 1, shrink)
    @given(strategy)
    def test(case):
        if state["first"]:
            state["first"] = False
            return
        body(case)

    try:
        test()
    except Violation as v:
        return v
    except hypothesis.errors.Flaky as e:  # the failure did not reproduce on re-execution
        inner = None
        for sub in getattr(e, "exceptions", ()) or ():
            if isinstance(sub, Violation):
                inner = sub
        if inner is not None:
            inner.detail += " [flaky under re-execution]"
            return inner
        raise env.HarnessError(f"flaky test in cell {cell['id']}: {e!r}") from e
    return None


def default_run_cell(prop, cell, tier, ctx):
    strat = prop.strategy(cell, tier)
    n = prop.examples(cell, tier)

    def body(case):
        ctx._case = case
        ctx.evaluations += 1
        prop.check_case(cell, case, ctx)

    shrink = getattr(prop, "SHRINK", True)
    v = run_hypothesis(prop.PID, cell, strat, body, n, shrink)
    if v is not None and hasattr(prop, "reduce_candidates"):
        v = structural_reduce(prop, cell, v, ctx)
    return [v] if v is not None else []


def structural_reduce(prop, cell, v, ctx, budget=150):
    """Greedy structural minimisation for bundle cases (Hypothesis' value shrinker is too
    expensive on a bundle of a dozen sub-cases): keep trying smaller candidates that fail
    in the same root-cause bucket.  Bounded by a number of re-executions, not by time."""
    best = v
    spent = 0
    progress = True
    while progress and spent < budget:
        progress = False
        for cand in prop.reduce_candidates(cell, best.case):
            spent += 1
            if spent > budget:
                break
            sub = Ctx(prop.PID, ctx.tier, cell)
            sub._case = cand
            try:
                prop.check_case(cell, cand, sub)
            except Violation as w:
                if w.bucket == best.bucket:
                    w.case = cand
                    w.cell = cell
                    best = w
                    progress = True
                    break
            except Exception:  # a candidate outside the generator's domain: ignore it
                continue
    return best


def _violation_record(v: Violation):
    return {
        "bucket": v.bucket,
        "op": v.op,
        "variant": v.variant,
        "backend": v.backend,
        "kind": v.kind,
        "detail": v.detail[:4000],
        "data": v.data,
        "case": v.case,
        "cell": v.cell,
    }


def _worker(args):
    pid, tier, chunk = args
    try:
        env.setup()
        prop = importlib.import_module(f"vcheck.props.{pid.lower()}")
        out = []
        for cell in chunk:
            ctx = Ctx(pid, tier, cell)
            runner = getattr(prop, "run_cell", None)
            if runner is not None:
                fails = runner(cell, tier, ctx)
            else:
                fails = default_run_cell(prop, cell, tier, ctx)
            out.append(ctx.result([_violation_record(v) for v in fails or []]))
        return ("ok", out)
    except Violation as v:  # escaped a custom driver
        return ("ok", [{"cell": "?", "evaluations": 0, "nontrivial": 0, "strata": {}, "excluded": {},
                        "known_hits": {}, "notes": {}, "samples": [], "failures": [_violation_record(v)]}])
    except BaseException:  # harness problem: report, never a VIOLATION
        return ("harness", traceback.format_exc())


def _slug(s):
    return re.sub(r"[^A-Za-z0-9_.-]+", "_", s)[:120]


def write_replay(pid, rec, directory=None):
    base = pathlib.Path(os.environ["VCHECK_REPLAY_DIR"]) if os.environ.get("VCHECK_REPLAY_DIR") else env.VERIF / "replays"
    d = directory or (base / pid)
    d.mkdir(parents=True, exist_ok=True)
    p = d / (_slug(rec["bucket"]) + ".json")
    payload = {"property": pid, **rec}
    p.write_text(json.dumps(payload, indent=1, sort_keys=True, default=_json_default))
    return p


def run_replay_file(prop, path):
    """Re-execute the oracle on exactly the stored input, without Hypothesis."""
    rec = json.loads(open(path).read())
    cell = rec["cell"]
    ctx = Ctx(prop.PID, "quick", cell)
    try:
        if hasattr(prop, "replay"):
            prop.replay(cell, rec["case"], ctx)
        else:
            ctx._case = rec["case"]
            prop.check_case(cell, rec["case"], ctx)
    except Violation as v:
        v.case = rec["case"]
        v.cell = cell
        return v, ctx
    return None, ctx


def run_property(pid, tier):
    t0 = time.time()
    env.setup()
    prop = importlib.import_module(f"vcheck.props.{pid.lower()}")
    results = []
    failures = []

    # seconds-long replay tier: regressions of repaired defects, re-run first
    regdir = env.VERIF / "regressions" / pid
    n_regress = 0
    if regdir.is_dir():
        for f in sorted(regdir.glob("*.json")):
            n_regress += 1
            v, _ = run_replay_file(prop, f)
            if v is not None:
                rec = _violation_record(v)
                rec["detail"] = f"[regression {f.name}] " + rec["detail"]
                failures.append(rec)

    cells = sorted(prop.cells(tier), key=lambda c: c["id"])
    ids = [c["id"] for c in cells]
    if len(set(ids)) != len(ids):
        raise env.HarnessError("duplicate cell ids")
    nproc = max(1, min(NPROC, len(cells)))
    isolate = getattr(prop, "ISOLATE", False)
    if isolate:
        # cells that change process-wide state (e.g. vector.register_awkward()) are grouped, and every
        # chunk runs in a fresh process
        groups = collections.OrderedDict()
        for c in cells:
            groups.setdefault(prop.cell_group(c), []).append(c)
        chunks = []
        for g in groups.values():
            k = max(1, min(len(g), nproc * 2))
            chunks.extend(g[i::k] for i in range(k))
    else:
        nchunks = max(1, min(len(cells), nproc * 6))
        chunks = [cells[i::nchunks] for i in range(nchunks)]
    serial = getattr(prop, "SERIAL", False) or nproc == 1
    if serial and not isolate:
        outs = [_worker((pid, tier, ch)) for ch in chunks]
    else:
        ctx_mp = multiprocessing.get_context("spawn")
        kw = {"max_tasks_per_child": 1} if isolate else {}
        with concurrent.futures.ProcessPoolExecutor(max_workers=nproc, mp_context=ctx_mp, **kw) as pool:
            outs = list(pool.map(_worker, [(pid, tier, ch) for ch in chunks]))
    for status, payload in outs:
        if status != "ok":
            raise env.HarnessError("worker failed:\n" + payload)
        results.extend(payload)
    results.sort(key=lambda r: str(r["cell"]))
    for r in results:
        failures.extend(r["failures"])
    if hasattr(prop, "finalize"):
        for v in prop.finalize(tier, results) or []:
            failures.append(_violation_record(v))

    # bucket by root cause
    buckets = collections.OrderedDict()
    for rec in failures:
        b = buckets.setdefault(rec["bucket"], {"first": rec, "cells": []})
        b["cells"].append(rec["cell"]["id"] if isinstance(rec["cell"], dict) else rec["cell"])

    known_hits = collections.Counter()
    strata = collections.Counter()
    excluded = collections.Counter()
    notes = collections.Counter()
    samples = []
    for r in results:
        known_hits.update(r["known_hits"])
        strata.update(r["strata"])
        excluded.update(r["excluded"])
        notes.update(r.get("notes", {}))
    with_samples = [r for r in results if r["samples"]]
    if with_samples:
        step = max(1, len(with_samples) // 8)
        for r in with_samples[::step][:8]:
            s = r["samples"][0]
            cell = next((c for c in cells if c["id"] == r["cell"]), {"id": r["cell"]})
            if hasattr(prop, "describe"):
                try:
                    s = prop.describe(cell, s)
                except Exception:  # rendering only
                    pass
            samples.append({"cell": r["cell"], "case": s})

    idle = [r["cell"] for r in results if r["evaluations"] == 0 and not r["failures"]]
    if results and len(idle) == len(results):
        raise env.HarnessError("no cell evaluated anything")
    evaluations = sum(r["evaluations"] for r in results) + n_regress
    nontrivial = sum(r["nontrivial"] for r in results)

    for fid, n in sorted(known_hits.items()):
        f = findings.by_id(fid)
        print(f"KNOWN-FINDING: property={pid} {f['text']} [{fid}; {n} generated cases excluded]")
    exit_code = env.EXIT_OK
    for bucket, b in buckets.items():
        rec = dict(b["first"])
        rec["cells_in_bucket"] = len(b["cells"])
        rec["cells_sample"] = b["cells"][:10]
        path = write_replay(pid, rec)
        print(f"VIOLATION property={pid} replay={path}")
        print(f"  bucket={bucket} cells={len(b['cells'])} :: {rec['detail'][:600]}")
        exit_code = env.EXIT_VIOLATION

    coverage = {
        "evaluations": int(evaluations),
        "distinct_nontrivial": int(nontrivial),
        "rule": prop.RULE,
        "samples": samples if samples else [{"note": "no non-trivial sample captured"}],
        "cells_total": len(cells),
        "cells_run": len(results),
        "strata_histogram": dict(sorted(strata.items())),
        "excluded": dict(sorted(excluded.items())),
        "excluded_known": {k: int(v) for k, v in sorted(known_hits.items())},
        "regressions_replayed": n_regress,
        "cells_without_evaluations": idle[:20],
        "notes": dict(sorted(notes.items())),
        "violation_buckets": list(buckets),
    }
    if getattr(prop, "EXHAUSTIVE", None):
        coverage["exhaustive"] = True
        coverage["exhaustive_over"] = prop.EXHAUSTIVE
    if hasattr(prop, "extra_coverage"):
        coverage.update(prop.extra_coverage(tier, results))
    evidence = {
        "property_id": pid,
        "tier": tier,
        "seed": env.base_seed(),
        "level": "exploration",
        "coverage": coverage,
        "assumptions": list(prop.ASSUMPTIONS),
        "wall_s": round(time.time() - t0, 2),
        "violations": len(buckets),
    }
    write_evidence(pid, evidence)
    print(
        f"{pid} {tier}: cells={len(cells)} evaluations={evaluations} distinct_nontrivial={nontrivial} "
        f"known={sum(known_hits.values())} violations={len(buckets)} wall={evidence['wall_s']}s"
    )
    return exit_code


def write_evidence(pid, evidence):
    import jsonschema

    schema = json.loads(open("/root/.vp/EVIDENCE.schema.json").read()) if os.path.exists(
        "/root/.vp/EVIDENCE.schema.json"
    ) else json.loads((env.VERIF / "tools" / "EVIDENCE.schema.json").read_text())
    text = json.dumps(evidence, indent=1, sort_keys=True, default=_json_default)
    try:
        jsonschema.validate(json.loads(text), schema)
    except jsonschema.ValidationError as e:
        raise env.HarnessError(f"evidence does not validate: {e.message}") from e
    d = pathlib.Path(os.environ["VCHECK_EVIDENCE_DIR"]) if os.environ.get("VCHECK_EVIDENCE_DIR") else env.VERIF / "evidence"
    d.mkdir(parents=True, exist_ok=True)
    (d / f"{pid}.json").write_text(text + "\n")


def main(argv=None):
    import argparse

    ap = argparse.ArgumentParser()
    ap.add_argument("pid")
    ap.add_argument("--tier", default=os.environ.get("VERIF_TIER", "quick"), choices=["quick", "thorough"])
    ap.add_argument("--replay")
    a = ap.parse_args(argv)
    pid = a.pid.upper()
    try:
        if a.replay:
            env.setup()
            prop = importlib.import_module(f"vcheck.props.{pid.lower()}")
            v, _ = run_replay_file(prop, a.replay)
            if v is not None:
                fid = findings.match(pid, v)
                if fid:
                    print(f"KNOWN-FINDING: property={pid} {findings.by_id(fid)['text']} [{fid}]")
                    return env.EXIT_OK
                print(f"VIOLATION property={pid} replay={os.path.abspath(a.replay)}")
                print(f"  bucket={v.bucket} :: {v.detail[:600]}")
                return env.EXIT_VIOLATION
            print(f"{pid} replay: property held on the stored input")
            return env.EXIT_OK
        return run_property(pid, a.tier)
    except env.HarnessError as e:
        print(f"HARNESS-ERROR property={pid}: {e}", file=sys.stderr)
        return env.EXIT_HARNESS
    except Exception:
        print(f"HARNESS-ERROR property={pid}:\n{traceback.format_exc()}", file=sys.stderr)
        return env.EXIT_HARNESS
