"""C05 - result backend, flavor, dimension and coordinate system follow the stated rules.

Exhaustive over the finite configuration lattice; values are two generated sets per point."""

from __future__ import annotations

import itertools
import operator as _op
import zlib

import numpy
from hypothesis import strategies as st
from mpmath import mpf

from vcheck import build, catalog, gen, lattice, mpbackend, obs, opcheck, refmodel as R
from vcheck.catalog import OPS

import awkward as ak  # noqa: E402
import vector  # noqa: E402
from vector._methods import Momentum  # noqa: E402

PID = "C05"
SHRINK = False
EXHAUSTIVE = ("every catalogued method x every coordinate-system signature of its operands (cells 'sig'), each evaluated for "
              "all four flavor combinations and a covering set (quick) / all (thorough) of backend pairings "
              "{object, NumPy, Awkward array, Awkward record}^2; every dimension pairing for the dimension rules; every operator")
RULE = (
    "Cells 'sig' = method x dimensions x stored system of every operand (the full signature lattice); inside a cell every "
    "flavor combination {generic, momentum}^k and backend pairing is evaluated on two generated value sets. Rule table from "
    "the statement: the call is defined (no exception); result backend = highest priority among counted operands "
    "(object < NumPy < Awkward; rotate_axis' axis not counted) and is a vector type with working behaviors; momentum iff a "
    "counted operand is momentum; dimension as documented; the result coordinate system is identical for both value sets, "
    "all flavors and all backend pairings of the signature. Cells 'dims' = every dimension pairing: TypeError for unequal "
    "dimensions of add/subtract/dot/equal/not_equal/isclose/is_parallel/is_antiparallel/is_perpendicular (and it works after "
    "like()); cross/rotate_axis/boosts reject wrong-dimension operands. Cells 'ops' = operator vs method (type and value). "
    "Every lattice point is a distinct configuration; non-trivial = mixed flavor, mixed backend or non-Cartesian signature."
)
ASSUMPTIONS = [
    "a single Awkward record combined with a NumPy array may come back as an Awkward array (broadcast); it must be an Awkward vector type",
    "scalar-valued results carry no vector type; only 'not a vector' is asserted for them",
]

PRIORITY = {"object": 0, "numpy": 1, "awkward": 2}
KINDS = ("object", "np1", "flat", "record")
SAME_DIM_OPS = ("add", "subtract", "dot", "equal", "not_equal", "isclose", "is_parallel", "is_antiparallel", "is_perpendicular")


def reduce_candidates(cell, case):
    return iter(())


def _kind_backend(k):
    return "awkward" if k in ("flat", "record") else ("numpy" if k == "np1" else "object")


def cells(tier):
    out = []
    for op in OPS.values():
        if "synonym" in op.tags:
            continue
        for da in op.self_dims:
            for db in op.other_dims(da):
                for sa in R.SYSTEMS[da]:
                    for sb in (R.SYSTEMS[db] if db else [None]):
                        cid = f"sig|{op.name}|{da}{R.sysname(sa)}|{db or ''}{R.sysname(sb) if sb else ''}"
                        out.append({"id": cid, "group": "sig", "op": op.name, "da": da, "db": db, "sa": R.sysname(sa),
                                    "sb": R.sysname(sb) if sb else None})
    for ka in KINDS:
        for kb in KINDS:
            out.append({"id": f"dims|{ka}|{kb}", "group": "dims", "ka": ka, "kb": kb})
    for d in (2, 3, 4):
        for sa in R.SYSTEMS[d]:
            for ka in KINDS + ("regular", "np2"):
                out.append({"id": f"ops|{d}{R.sysname(sa)}|{ka}", "group": "ops", "d": d, "sa": R.sysname(sa), "ka": ka})
            for ka in KINDS:
                out.append({"id": f"conv|{d}{R.sysname(sa)}|{ka}", "group": "conv", "d": d, "sa": R.sysname(sa), "ka": ka})
    return out


def examples(cell, tier):
    return 1


def strategy(cell, tier):
    if cell["group"] == "sig":
        op = OPS[cell["op"]]
        one = opcheck.case_strategy(op, cell["db"], "f64", None)
        return st.tuples(*([one] * (2 * lattice.N))).map(list)
    one = st.fixed_dictionaries({"a": gen.vec(("moderate",)), "b": gen.vec(("moderate",)), "s": st.fixed_dictionaries({"factor": gen.factor()})})
    return st.tuples(*([one] * lattice.N)).map(list)


def _pairings(op, db, tier, key):
    if not db:
        return [(k, None) for k in KINDS]
    allp = list(itertools.product(KINDS, KINDS))
    if tier == "thorough":
        return allp
    h = zlib.crc32(key.encode())
    # covering subset: every kind appears first and second; 6 pairings per signature
    picks = [allp[(h + i * 5) % 16] for i in range(4)]
    picks += [(KINDS[h % 4], KINDS[(h // 4) % 4]), (KINDS[(h // 16) % 4], KINDS[(h // 64) % 4])]
    return list(dict.fromkeys(picks))


def _expected_backend(op, ka, kb):
    counted = [ka] + ([kb] if (kb is not None and "axis" not in op.tags) else [])
    return max((_kind_backend(k) for k in counted), key=lambda b: PRIORITY[b])


def check_case(cell, elems, ctx):
    {"sig": _check_sig, "dims": _check_dims, "ops": _check_ops, "conv": _check_conv}[cell["group"]](cell, elems, ctx)
    ctx.evaluations -= 1


def _check_sig(cell, elems, ctx):
    op = OPS[cell["op"]]
    da, db = cell["da"], cell["db"]
    variant = f"{da}{cell['sa']}" + (f"+{db}{cell['sb']}" if db else "")
    if "order" in op.scalars:
        for e in elems:
            e["s"]["order"] = elems[0]["s"]["order"]
    sets = [elems[: lattice.N], elems[lattice.N :]]
    flavors = ["g", "m"] if not db else ["gg", "gm", "mg", "mm"]
    if op.momentum:
        flavors = ["m"] if not db else ["mg", "mm"]
    systems_seen = {}
    for ka, kb in _pairings(op, db, ctx.tier, cell["id"]):
        if "axis" in op.tags and ka in ("object", "record") and kb in lattice.ARRAY_KINDS:
            continue
        for fl in flavors:
            for si, es in enumerate(sets):
                cfg = dict(cell, ka=ka, kb=kb, fa=fl[0], fb=fl[1] if db else None, scal="py",
                           spa="momentum" if (fl[0] == "m" and ka in ("flat", "record") and si) else "generic",
                           spb="momentum" if (db and fl[1] == "m" and kb in ("flat", "record") and si) else "generic")
                o = lattice.evaluate(cfg, es, want_ref=False)
                ctx.evaluation()
                be = f"{ka}+{kb}" if db else ka
                where = f"{op.name} {variant} flavors={fl} backends={be} spelling={cfg['spa']}/{cfg['spb']}"
                if o.skipped:
                    ctx.exclude(o.skipped)
                    continue
                if o.exc is not None:
                    if isinstance(o.exc, ZeroDivisionError):
                        ctx.exclude("singular")
                        continue
                    ctx.fail("undefined", f"{where}: raised {type(o.exc).__name__}: {o.exc!s:.300}", op=op.name, variant=variant,
                             backend=be)
                    return
                res = o.result
                kind = lattice.classify(res)
                if op.result != "vec":
                    if kind in ("object", "numpy", "awkward-array", "awkward-record"):
                        ctx.fail("result_type", f"{where}: scalar-valued operation returned a vector {type(res).__name__}",
                                 op=op.name, variant=variant, backend=be)
                        return
                    continue
                want_be = _expected_backend(op, ka, kb)
                got_be = {"object": "object", "numpy": "numpy", "awkward-array": "awkward", "awkward-record": "awkward"}.get(kind)
                if got_be is None:
                    ctx.fail("backend", f"{where}: result is {type(res).__name__} ({kind}), not a vector of the {want_be} backend",
                             op=op.name, variant=variant, backend=be)
                    return
                if got_be != want_be:
                    ctx.fail("backend", f"{where}: result backend {got_be} ({type(res).__name__}), rule says {want_be}", op=op.name,
                             variant=variant, backend=be)
                    return
                if want_be == "awkward":
                    counted = [ka] + ([kb] if (kb and "axis" not in op.tags) else [])
                    only_records = all(k in ("record", "object") for k in counted)
                    if only_records and kind != "awkward-record":
                        ctx.fail("backend", f"{where}: operands are single vectors but the result is {kind}", op=op.name,
                                 variant=variant, backend=be)
                        return
                counted_fl = [fl[0]] + ([fl[1]] if (db and "axis" not in op.tags) else [])
                want_mom = "m" in counted_fl
                if isinstance(res, Momentum) != want_mom:
                    ctx.fail("flavor", f"{where}: result {'is' if isinstance(res, Momentum) else 'is not'} momentum "
                             f"({type(res).__name__}), rule says {'momentum' if want_mom else 'generic'}", op=op.name,
                             variant=variant, backend=be)
                    return
                want_dim = op.result_dim(da, db)
                if obs.dim_of(res) != want_dim:
                    ctx.fail("dimension", f"{where}: result dimension {obs.dim_of(res)} ({type(res).__name__}), documented {want_dim}",
                             op=op.name, variant=variant, backend=be)
                    return
                try:
                    sysr = obs.system_of(res)
                    lattice.read_vector_rows(res)
                except Exception as e:  # noqa: BLE001
                    ctx.fail("result_type", f"{where}: result {type(res).__name__} has no readable coordinates: {e!r}", op=op.name,
                             variant=variant, backend=be)
                    return
                systems_seen.setdefault(sysr, where)
                if len(systems_seen) > 1:
                    ctx.fail("system", "result coordinate system is not a function of the operands' systems: "
                             + "; ".join(f"{R.sysname(k)} for [{v}]" for k, v in systems_seen.items()), op=op.name,
                             variant=variant, backend=be)
                    return
                nontrivial = ("m" in fl and "g" in fl) or (db and ka != kb) or cell["sa"] != R.sysname(opcheck.CART[da])
                if nontrivial:
                    ctx.nontrivial(key=[cell["id"], ka, kb, fl, si], sample={"config": where, "result": type(res).__name__,
                                                                              "system": R.sysname(sysr)})


def _mk(kind, d, elems, which="a", momentum=False, system=None, extra=False):
    system = system or opcheck.CART[d]
    rows = lattice.rows_for(system, [e[which]["c"] for e in elems], d)
    return lattice.make_operand(kind, system, rows, momentum, extra=extra)


def _expect_typeerror(ctx, what, f, op, be):
    try:
        f()
    except TypeError:
        return True
    except Exception as e:  # noqa: BLE001
        ctx.fail(f"dimension_rule:{type(e).__name__}", f"{what}: raised {type(e).__name__} ({e!s:.200}) instead of TypeError",
                 op=op, variant="dims", backend=be)
        return True  # only reached for a recorded known finding: continue behind it
    ctx.fail("dimension_rule", f"{what}: did not raise TypeError", op=op, variant="dims", backend=be)
    return True


def _check_dims(cell, elems, ctx):
    ka, kb = cell["ka"], cell["kb"]
    be = f"{ka}+{kb}"
    for da in (2, 3, 4):
        for db in (2, 3, 4):
            A = _mk(ka, da, elems, "a", momentum=(da + db) % 2 == 0)
            B = _mk(kb, db, elems, "b")
            if da != db:
                for name in SAME_DIM_OPS:
                    ctx.evaluation()
                    args = (0.1,) if name.startswith("is_") else ()
                    if not _expect_typeerror(ctx, f"{name}({da}D {ka}, {db}D {kb})", lambda: getattr(A, name)(B, *args), name, be):
                        return
                    # ... and it works after like()
                    try:
                        r = getattr(A.like(B), name)(B, *args)
                        r2 = getattr(A, name)(B.like(A), *args)
                    except Exception as e:  # noqa: BLE001
                        ctx.fail("dimension_rule", f"{name}({da}D {ka}.like({db}D {kb}), ...) raised {type(e).__name__}: {e!s:.200}",
                                 op=name, variant="dims", backend=be)
                        return
                    if name in ("add", "subtract"):
                        if obs.dim_of(r) != db or obs.dim_of(r2) != da:
                            ctx.fail("dimension_rule", f"{name} after like(): dimensions {obs.dim_of(r)}, {obs.dim_of(r2)} expected "
                                     f"{db}, {da}", op=name, variant="dims", backend=be)
                            return
                for opname, f in (("+", _op.add), ("-", _op.sub), ("@", _op.matmul), ("==", _op.eq), ("!=", _op.ne)):
                    ctx.evaluation()
                    if not _expect_typeerror(ctx, f"({da}D {ka}) {opname} ({db}D {kb})", lambda f=f: f(A, B), opname, be):
                        return
            # cross: 3D x 3D only
            if da >= 3 and (da, db) != (3, 3):
                ctx.evaluation()
                if not _expect_typeerror(ctx, f"cross({da}D {ka}, {db}D {kb})", lambda: A.cross(B), "cross", be):
                    return
            if da >= 3 and db != 3:
                ctx.evaluation()
                if not _expect_typeerror(ctx, f"rotate_axis(axis={db}D {kb})", lambda: A.rotate_axis(B, 0.1), "rotate_axis", be):
                    return
            if da >= 3 and db == 2:
                for name in ("deltaangle", "deltaeta", "deltaR", "deltaR2"):
                    ctx.evaluation()
                    if not _expect_typeerror(ctx, f"{name}({da}D, 2D)", lambda name=name: getattr(A, name)(B), name, be):
                        return
            if da == 4:
                for name, okdim in (("boost_p4", 4), ("boost_beta3", 3), ("boostCM_of_p4", 4), ("boostCM_of_beta3", 3),
                                    ("deltaRapidityPhi", 4), ("deltaRapidityPhi2", 4)):
                    if db != okdim:
                        ctx.evaluation()
                        if not _expect_typeerror(ctx, f"{name}({db}D {kb})", lambda name=name: getattr(A, name)(B), name, be):
                            return
                if db == 2:
                    for name in ("boost", "boostCM_of"):
                        ctx.evaluation()
                        if not _expect_typeerror(ctx, f"{name}(2D {kb})", lambda name=name: getattr(A, name)(B), name, be):
                            return
            ctx.nontrivial(key=[ka, kb, da, db], sample={"dims": [da, db], "backends": be})


_TOKENS = (("energy", "t"), ("theta", "theta"), ("mass", "tau"), ("rho", "rho"), ("phi", "phi"), ("eta", "eta"), ("tau", "tau"),
           ("px", "x"), ("py", "y"), ("pz", "z"), ("pt", "rho"), ("x", "x"), ("y", "y"), ("z", "z"), ("t", "t"))
_KIND_CLASS = {"object": "object", "np1": "numpy", "flat": "awkward-array", "record": "awkward-record"}


def _parse_conversion(name):
    """to_xythetatau -> ('xy', 'theta', 'tau'): coordinate system named by a conversion method (None: not a named conversion)"""
    rest, out = name[3:], []
    while rest:
        for tok, geo in _TOKENS:
            if rest.startswith(tok):
                out.append(geo)
                rest = rest[len(tok):]
                break
        else:
            return None
    if len(out) < 2:
        return None
    return ("".join(out[:2]),) + tuple(out[2:])


def _check_conv(cell, elems, ctx):
    """conversions, projections, embeddings and like(): the result keeps backend kind (a record stays a record) and flavor,
    has the dimension and coordinate system the method names; values belong to C04"""
    d, ka = cell["d"], cell["ka"]
    sa = opcheck.parse_system(cell["sa"])
    variant = f"{d}{cell['sa']}"
    for mom in (False, True):
        A = _mk(ka, d, elems, "a", momentum=mom, system=sa)
        fl = "m" if mom else "g"
        calls = []
        for name in sorted(n for n in dir(A) if n.startswith("to_") and n != "to_beta3"):
            if name[3:] in ("2D", "3D", "4D") or name.startswith("to_Vector"):
                td = int(name[-2])
                exp = tuple(sa[: td - 1]) + (("z",) if d < 3 <= td else ()) + (("t",) if d < 4 == td else ())
            else:
                exp = _parse_conversion(name)
                if exp is None:
                    continue
                td = len(exp) + 1
            calls.append((name, lambda name=name: getattr(A, name)(), td, exp))
        for td in (2, 3, 4):
            for kb in ("object", "np1", "flat"):
                for si, sb in enumerate(R.SYSTEMS[td]):
                    if (si + td + len(kb)) % 4:
                        continue
                    exp = tuple(sa[: td - 1]) + (("z",) if d < 3 <= td else ()) + (("t",) if d < 4 == td else ())
                    B = _mk(kb, td, elems, "b", momentum=(si % 2 == 0), system=sb)
                    calls.append((f"like({td}D {R.sysname(sb)} {kb})", lambda B=B: A.like(B), td, exp))
        for name, f, td, exp in calls:
            ctx.evaluation()
            where = f"{name} of a {fl} {variant} {ka}"
            opn = name.split("(")[0]
            try:
                r = f()
            except Exception as e:  # noqa: BLE001
                ctx.fail(f"exception:{type(e).__name__}", f"{where} raised {type(e).__name__}: {e!s:.200}", op=opn, variant=variant, backend=ka)
                continue
            k = lattice.classify(r)
            if k != _KIND_CLASS[ka]:
                ctx.fail(f"backend:{k}", f"{where}: result is {k} ({type(r).__name__}), expected {_KIND_CLASS[ka]}", op=opn,
                         variant=variant, backend=ka)
                continue
            if obs.is_momentum(r) != mom:
                ctx.fail("flavor", f"{where}: result {type(r).__name__} is {'momentum' if obs.is_momentum(r) else 'generic'}", op=opn,
                         variant=variant, backend=ka)
                continue
            if obs.dim_of(r) != td:
                ctx.fail("dimension", f"{where}: result is {obs.dim_of(r)}D, expected {td}D", op=opn, variant=variant, backend=ka)
                continue
            try:
                sysr = obs.system_of(r)
            except Exception as e:  # noqa: BLE001
                ctx.fail("result_type", f"{where}: coordinates of the result are not readable: {e!r}", op=opn, variant=variant, backend=ka)
                continue
            if sysr != exp:
                ctx.fail("system", f"{where}: result stored as {R.sysname(sysr)}, expected {R.sysname(exp)}", op=opn, variant=variant,
                         backend=ka)
                continue
            if mom:
                # a momentum result answers the momentum spellings
                try:
                    r.pt, r.px
                except Exception as e:  # noqa: BLE001
                    ctx.fail("behavior", f"{where}: momentum result has no working .pt/.px ({type(e).__name__})", op=opn,
                             variant=variant, backend=ka)
                    continue
            ctx.nontrivial(key=[cell["id"], fl, name], sample={"config": where, "result": type(r).__name__, "system": R.sysname(sysr)})


def _same(ctx, what, r1, r2, op, be, variant):
    k1, k2 = lattice.classify(r1), lattice.classify(r2)
    if type(r1) is not type(r2):
        ctx.fail(f"operator_type:{type(r1).__name__}/{type(r2).__name__}", f"{what}: operator gives {type(r1).__name__}, "
                 f"method gives {type(r2).__name__}", op=op, variant=variant, backend=be)
        return False
    def near(x, y, scale):
        # the two spellings may reach the same kernel with a scalar on one path and a one-element array on the other; NumPy's
        # scalar and SIMD loops of sinh / cos / ... differ in the last bits, so values are compared at 1e-12 of the row's scale
        if isinstance(x, (bool, numpy.bool_)) or isinstance(y, (bool, numpy.bool_)):
            return bool(x) == bool(y)
        if x is None or y is None:
            return x is None and y is None
        return (x == y) or (x != x and y != y) or abs(x - y) <= 1e-12 * scale

    if k1 in ("object", "numpy", "awkward-array", "awkward-record"):
        s1, rows1 = lattice.read_vector_rows(r1)
        s2, rows2 = lattice.read_vector_rows(r2)
        ok = s1 == s2 and len(rows1) == len(rows2) and all(
            all(near(x, y, max([abs(float(u)) for u in a if u is not None and u == u] + [1e-300])) for x, y in zip(a, b))
            for a, b in zip(rows1, rows2))
    else:
        v1, v2 = build.flat_values(r1), build.flat_values(r2)
        ok = len(v1) == len(v2) and all(near(x, y, max(abs(x), abs(y)) if not isinstance(x, (bool, numpy.bool_)) and x is not None and y is not None else 1) for x, y in zip(v1, v2))
    if not ok:
        ctx.fail("operator", f"{what}: operator and method give different values", op=op, variant=variant, backend=be)
    return ok


def _check_ops(cell, elems, ctx):
    d, ka = cell["d"], cell["ka"]
    sa = opcheck.parse_system(cell["sa"])
    variant = f"{d}{cell['sa']}"
    for mom in (False, True):
        A = _mk(ka, d, elems, "a", mom, sa)
        # two-dimensional operands (a 2 x 3 NumPy array, a regular 2 x 3 Awkward array) pair with each other and with objects
        for kb, momb in itertools.product(KINDS if ka in KINDS else ("regular", "np2", "object"), (False, True)):
            # (a generic second operand also carries a non-coordinate field: a NumPy view of a wider record, an Awkward array
            # with a charge column)
            B = _mk(kb, d, elems, "b", momb, R.SYSTEMS[d][zlib.crc32(cell["id"].encode()) % len(R.SYSTEMS[d])],
                    extra=(not momb and kb not in ("object", "record")))
            be = f"{ka}+{kb}"
            pairs = [("a+b", lambda: A + B, lambda: A.add(B)), ("a-b", lambda: A - B, lambda: A.subtract(B)),
                     ("a@b", lambda: A @ B, lambda: A.dot(B)), ("a==b", lambda: A == B, lambda: A.equal(B)),
                     ("a!=b", lambda: A != B, lambda: A.not_equal(B))]
            for what, f1, f2 in pairs:
                ctx.evaluation()
                try:
                    r1, r2 = f1(), f2()
                except Exception as e:  # noqa: BLE001
                    ctx.fail(f"operator_raises:{type(e).__name__}", f"{what} [{variant}; {be}] raised {type(e).__name__}: {e!s:.200}",
                             op=what, variant=variant, backend=be)
                    continue  # only reached for a recorded known finding
                if not _same(ctx, f"{what} [{variant}; {be}; momentum={mom},{momb}]", r1, r2, what, be, variant):
                    return
        s = elems[0]["s"]["factor"]
        nrm = {2: "rho", 3: "mag", 4: "tau"}[d]
        nrm2 = nrm + "2"
        un = [("a*s", lambda: A * s, lambda: A.scale(s)), ("s*a", lambda: s * A, lambda: A.scale(s)),
              ("a/s", lambda: A / s, lambda: A.scale(1 / s)), ("-a", lambda: -A, lambda: A.scale(-1)),
              ("+a", lambda: +A, lambda: A), ("abs(a)", lambda: abs(A), lambda: getattr(A, nrm)),
              ("a**2", lambda: A**2, lambda: getattr(A, nrm2))]
        for what, f1, f2 in un:
            ctx.evaluation()
            try:
                r1, r2 = f1(), f2()
            except Exception as e:  # noqa: BLE001
                ctx.fail("operator", f"{what} [{variant}; {ka}] raised {type(e).__name__}: {e!s:.200}", op=what, variant=variant,
                         backend=ka)
                return
            if not _same(ctx, f"{what} [{variant}; {ka}; momentum={mom}]", r1, r2, what, ka, variant):
                return
        ctx.nontrivial(key=[cell["id"], mom], sample={"operators_on": f"{variant} {ka} momentum={mom}"})


def describe(cell, case):
    return case[:1] if isinstance(case, list) else case
