"""C10 - rotations are proper rotations and their spellings agree (laws)."""

from __future__ import annotations

import math
import zlib

import mpmath
from hypothesis import strategies as st
from mpmath import mpf

from vcheck import gen, laws, obs, opcheck, refmodel as R
from vcheck.laws import Env, Skip

PID = "C10"
SHRINK = False
RULE = (
    "Cells = law x rotation kind (rotateX/Y/Z, rotate_axis, rotate_euler x 12 orders in both letter cases, rotate_nautical, "
    "rotate_quaternion) x dimension (2D for rotateZ, 3D, 4D) x stored system of the vector (x stored system of the axis) x "
    "tier {mp, f64}. Laws: lengths, dot products and handedness (Ra x Rb = R(a x b)) preserved; stored t/tau bit-identical; "
    "R(a)R(b)=R(a+b) about a fixed axis; R(-a)R(a)=id; rotate_axis(e_x|e_y|e_z, a)=rotateX|Y|Z(a) and independent of |axis|; "
    "rotate_quaternion(cos a/2, n sin a/2)=rotate_axis(n,a); rotate_euler(phi,theta,psi,'abc') = rotateC(-phi) then "
    "rotateB(-theta) then rotateA(-psi) (the library's own axis rotations) for all 12 orders; rotate_nautical(y,p,r) = "
    "rotate_euler(r,p,y,'zyx'). One sub-case per stratum of the rotated vector; angles from all quadrants, multiples of "
    "pi/2, |a|<=50. Non-trivial = distinct non-zero angles that are not multiples of pi/2 and a vector with distinct "
    "non-zero components; distinct by (cell, input)."
)
ASSUMPTIONS = [
    "the Euler product rule is the documented one (docs/index.md chain, confirmed uniform over the 12 orders)",
    "f64 tier: well-conditioned stratum, tolerance 1e-9*scale",
]

KINDS3 = ("rotateX", "rotateY", "rotateZ", "rotate_axis", "rotate_nautical", "rotate_quaternion")


def reduce_candidates(cell, bundle):
    if len(bundle) > 1:
        for sub in bundle:
            yield [sub]


def _h(key, seq):
    return seq[zlib.crc32(key.encode()) % len(seq)]


def cells(tier):
    out = []

    def add(law, kind, d, sv, sx=None, order=None):
        for mode in ("mp", "f64"):
            cid = f"{law}|{kind}|{d}{R.sysname(sv)}|{R.sysname(sx) if sx else ''}|{order or ''}|{mode}"
            out.append({"id": cid, "law": law, "kind": kind, "d": d, "sv": R.sysname(sv), "sx": R.sysname(sx) if sx else None,
                        "order": order, "mode": mode})

    for sv in R.SYSTEMS[2]:
        for law in ("isometry", "additive", "inverse"):
            add(law, "rotateZ", 2, sv)
    for d in (3, 4):
        for sv in R.SYSTEMS[d]:
            for kind in ("rotateX", "rotateY", "rotateZ"):
                for law in ("isometry", "additive", "inverse"):
                    add(law, kind, d, sv)
            axes = R.SYSTEMS[3] if tier == "thorough" else list(dict.fromkeys([R.SYSTEMS[3][0], _h(R.sysname(sv), R.SYSTEMS[3]), _h("b" + R.sysname(sv), R.SYSTEMS[3])]))
            for sx in axes:
                for law in ("isometry", "additive", "inverse", "axis_spelling", "quaternion_spelling"):
                    add(law, "rotate_axis", d, sv, sx)
            add("isometry", "rotate_quaternion", d, sv)
            add("isometry", "rotate_nautical", d, sv)
            add("nautical_spelling", "rotate_nautical", d, sv)
            for i, o in enumerate(gen.EULER_ORDERS):
                orders = [o, o.upper()] if tier == "thorough" else [o if (i + d) % 2 else o.upper()]
                for oo in orders:
                    add("euler_spelling", "rotate_euler", d, sv, None, oo)
                    add("isometry", "rotate_euler", d, sv, None, oo)
    return out


def examples(cell, tier):
    if tier == "quick":
        return 1 if cell["mode"] == "mp" else 2
    return 10


def strategy(cell, tier):
    f64 = cell["mode"] == "f64"
    d = cell["d"]
    strata = ("moderate",) * 3 if f64 else opcheck.STRATA_BY_DIM[d]
    allb = ("moderate",) if f64 else opcheck.STRATA_BY_DIM[d]
    ang = st.floats(-10.0, 10.0) if f64 else gen.angle()
    parts = []
    for s in strata:
        parts.append(st.fixed_dictionaries({
            "a": gen.vec((s,)), "b": gen.vec(allb), "axis": gen.vec(("octant", "near_z_axis", "x_or_y_small") if not f64 else ("moderate",)),
            "a1": ang, "a2": ang, "a3": ang, "ga": gen.generic_angle(), "q": gen.quaternion(unit=True),
            "len": st.floats(0.2, 7.0)}))
    return st.tuples(*parts).map(list)


def _apply(env, kind, v, sub, cell, axis=None, angle=None, sign=1):
    """apply the cell's rotation kind to vector v with the sub-case's parameters"""
    n = env.num
    a1 = sub["a1"] if angle is None else angle
    if kind in ("rotateX", "rotateY", "rotateZ"):
        return env.call(kind, lambda: getattr(v, kind)(n(sign * a1)))
    if kind == "rotate_axis":
        return env.call(kind, lambda: v.rotate_axis(axis, n(sign * a1)))
    if kind == "rotate_euler":
        return env.call(kind, lambda: v.rotate_euler(n(sub["a1"]), n(sub["a2"]), n(sub["a3"]), cell["order"]))
    if kind == "rotate_nautical":
        return env.call(kind, lambda: v.rotate_nautical(n(sub["a1"]), n(sub["a2"]), n(sub["a3"])))
    if kind == "rotate_quaternion":
        q = sub["q"]
        return env.call(kind, lambda: v.rotate_quaternion(n(q[0]), n(q[1]), n(q[2]), n(q[3])))
    raise KeyError(kind)


def _generic_angles(*angs):
    for a in angs:
        r = (a / (math.pi / 2)) % 1.0
        if min(r, 1 - r) < 1e-6:
            return False
    return len(set(angs)) == len(angs)


def check_sub(cell, sub, ctx):
    law, kind, d = cell["law"], cell["kind"], cell["d"]
    mp_ = cell["mode"] == "mp"
    sv = opcheck.parse_system(cell["sv"])
    sx = opcheck.parse_system(cell["sx"]) if cell["sx"] else None
    env = Env(ctx, cell, mp_, f"{law}:{kind}", f"{d}{cell['sv']}|{cell['sx'] or ''}|{cell['order'] or ''}")
    ctx.stratum(sub["a"]["stratum"])
    a, b = sub["a"]["c"], sub["b"]["c"]
    ac = tuple(mpf(x) for x in a[:d])
    A = env.vec(sv, a)
    AX = env.vec(sx, sub["axis"]["c"][:3]) if sx else None
    sc = R.scale_of(ac)
    # unit quaternions / float64 sin-cos: exact only to rounding of the generated parameters
    qfac = mpf("1e26") if (kind == "rotate_quaternion" or law == "quaternion_spelling") and mp_ else 1
    nontrivial = opcheck.nonzero_components(ac) and len({abs(x) for x in ac[:min(d, 3)]}) == min(d, 3)

    def spatial_norm2(c):
        return sum((x * x for x in c[: min(len(c), 3)]), mpf(0))

    if law == "isometry":
        RA = _apply(env, kind, A, sub, cell, AX)
        ra = env.cart(RA)
        if obs.dim_of(RA) != d:
            env.fail("dimension", f"result has dimension {obs.dim_of(RA)}")
        env.eq_num("length preserved", spatial_norm2(ra), spatial_norm2(ac), sc * sc, 8 * qfac)
        if d == 4:
            # time / proper time untouched: the stored temporal coordinate is passed through bit for bit
            tin, tout = obs.stored(A)[3], obs.stored(RA)[3]
            if obs.system_of(RA)[2] != sv[2] or not (tin == tout):
                env.fail("temporal", f"temporal coordinate changed by a rotation: in {sv[2]}={opcheck.fmt(tin)} out "
                         f"{obs.system_of(RA)[2]}={opcheck.fmt(tout)}")
        sv2 = _h(cell["id"], R.SYSTEMS[d])
        B = env.vec(sv2, b)
        bc = tuple(mpf(x) for x in b[:d])
        RB = _apply(env, kind, B, sub, cell, AX)
        rb = env.cart(RB)
        n3 = min(d, 3)
        dot0 = sum((ac[i] * bc[i] for i in range(n3)), mpf(0))
        dot1 = sum((ra[i] * rb[i] for i in range(n3)), mpf(0))
        env.eq_num("dot product preserved", dot1, dot0, sc * R.scale_of(bc), 8 * qfac)
        if d >= 3:
            # handedness: R(a) x R(b) = R(a x b)
            c0 = R.cross(ac[:3], bc[:3])
            if R.representable(("xy", "z"), c0):
                C = env.vec(("xy", "z"), c0) if mp_ else None
                c1 = R.cross(ra[:3], rb[:3])
                if C is not None:
                    RC = _apply(env, kind, C, sub, cell, AX)
                    env.eq_cart("handedness: R(a) x R(b) = R(a x b)", c1, env.cart(RC), sc * R.scale_of(bc), 16 * qfac, 3)
                else:
                    # float64: compare the triple product (determinant) instead of building a rounded cross product
                    t0 = sum((c0[i] * c0[i] for i in range(3)), mpf(0))
                    t1 = sum((c1[i] * c1[i] for i in range(3)), mpf(0))
                    env.eq_num("|R(a) x R(b)| = |a x b|", t1, t0, (sc * R.scale_of(bc)) ** 2, 16)
                    third = tuple(mpf(x) for x in sub["axis"]["c"][:3])
                    T = env.vec(("xy", "z"), sub["axis"]["c"][:3])
                    RT = env.cart(_apply(env, kind, T, sub, cell, AX))
                    det0 = sum((c0[i] * third[i] for i in range(3)), mpf(0))
                    det1 = sum((c1[i] * RT[i] for i in range(3)), mpf(0))
                    env.eq_num("handedness: det(Ra,Rb,Rc) = det(a,b,c)", det1, det0, sc * R.scale_of(bc) * R.scale_of(third), 32)
        nontrivial = nontrivial and _generic_angles(sub["a1"], sub["a2"], sub["a3"])
    elif law == "additive":
        a1, a2 = sub["a1"], sub["a2"]
        R1 = _apply(env, kind, A, sub, cell, AX, angle=a1)
        R12 = _apply(env, kind, R1, sub, cell, AX, angle=a2)
        tot = (mpf(a1) + mpf(a2)) if mp_ else (a1 + a2)
        Rs = _apply(env, kind, A, sub, cell, AX, angle=tot)
        env.eq_vec("R(a)R(b) = R(a+b)", R12, Rs, sc, 64, n=min(d, 3))
        nontrivial = nontrivial and _generic_angles(a1, a2)
    elif law == "inverse":
        R1 = _apply(env, kind, A, sub, cell, AX)
        R2 = _apply(env, kind, R1, sub, cell, AX, sign=-1)
        env.eq_cart("R(-a)R(a) = id", env.cart(R2), ac, sc, 64)
        nontrivial = nontrivial and _generic_angles(sub["a1"])
    elif law == "axis_spelling":
        ang = sub["a1"]
        for nm, e in (("rotateX", (1.0, 0.0, 0.0)), ("rotateY", (0.0, 1.0, 0.0)), ("rotateZ", (0.0, 0.0, 1.0))):
            L = sub["len"]
            ev = [x * L for x in e]
            try:
                E = env.vec(sx, ev)
            except Skip:
                continue  # z axis is not representable with theta/eta storage
            r1 = env.call("rotate_axis", lambda E=E: A.rotate_axis(E, env.num(ang)))
            r2 = env.call(nm, lambda nm=nm: getattr(A, nm)(env.num(ang)))
            env.eq_vec(f"rotate_axis(e_{nm[-1].lower()}*{L}, a) = {nm}(a)", r1, r2, sc, 64)
        # independence of the axis length
        r1 = env.call("rotate_axis", lambda: A.rotate_axis(AX, env.num(ang)))
        AX2 = env.vec(sx, [mpf(x) * mpf(sub["len"]) for x in sub["axis"]["c"][:3]])
        r2 = env.call("rotate_axis", lambda: A.rotate_axis(AX2, env.num(ang)))
        env.eq_vec("rotate_axis ignores the axis length", r1, r2, sc, 64)
        nontrivial = nontrivial and _generic_angles(ang)
    elif law == "quaternion_spelling":
        ang = sub["ga"]
        axc = tuple(mpf(x) for x in sub["axis"]["c"][:3])
        nrm = mpmath.sqrt(sum((x * x for x in axc), mpf(0)))
        h = mpf(ang) / 2
        q = [mpmath.cos(h)] + [x / nrm * mpmath.sin(h) for x in axc]
        if not mp_:
            q = [float(x) for x in q]
        r1 = env.call("rotate_quaternion", lambda: A.rotate_quaternion(*q))
        r2 = env.call("rotate_axis", lambda: A.rotate_axis(AX, env.num(ang)))
        env.eq_vec("rotate_quaternion(cos a/2, n sin a/2) = rotate_axis(n, a)", r1, r2, sc, 64, n=min(d, 3))
    elif law == "euler_spelling":
        o = cell["order"].lower()
        n = env.num
        r1 = env.call("rotate_euler", lambda: A.rotate_euler(n(sub["a1"]), n(sub["a2"]), n(sub["a3"]), cell["order"]))
        step = A
        for letter, ang in ((o[2], sub["a1"]), (o[1], sub["a2"]), (o[0], sub["a3"])):
            nm = "rotate" + letter.upper()
            step = env.call(nm, lambda nm=nm, step=step, ang=ang: getattr(step, nm)(n(-ang)))
        env.eq_vec(f"rotate_euler(phi,theta,psi,'{cell['order']}') = rotate{o[2].upper()}(-phi), rotate{o[1].upper()}(-theta), "
                   f"rotate{o[0].upper()}(-psi)", r1, step, sc, 64, n=3)
        nontrivial = nontrivial and _generic_angles(sub["a1"], sub["a2"], sub["a3"])
    elif law == "nautical_spelling":
        n = env.num
        y, p, r = sub["a1"], sub["a2"], sub["a3"]
        r1 = env.call("rotate_nautical", lambda: A.rotate_nautical(n(y), n(p), n(r)))
        r2 = env.call("rotate_euler", lambda: A.rotate_euler(n(r), n(p), n(y), "zyx"))
        env.eq_vec("rotate_nautical(yaw,pitch,roll) = rotate_euler(roll,pitch,yaw,'zyx')", r1, r2, sc, 8, n=3)
        nontrivial = nontrivial and _generic_angles(y, p, r)
    else:
        raise KeyError(law)
    return nontrivial


def check_case(cell, bundle, ctx):
    laws.run_bundle(check_sub, cell, bundle, ctx)


def describe(cell, case):
    return case
