"""C18 - Awkward arrays keep structure and extra fields through vector operations; a record
selected from an array behaves like the equivalent vector object."""

from __future__ import annotations

import zlib

import numpy
from hypothesis import strategies as st
from mpmath import mpf

from vcheck import build, catalog, gen, lattice, mpbackend, obs, opcheck, refmodel as R
from vcheck.catalog import OPS

import awkward as ak  # noqa: E402
import vector  # noqa: E402
from vector._methods import Momentum  # noqa: E402

PID = "C18"
SHRINK = False
ISOLATE = True
RULE = (
    "Cells = catalogued operation x operand dimensions x Awkward layout {flat, jagged with empty list, nested depth 3, "
    "option-typed records, option-typed lists, regular} x {behaviors attached per array, vector.register_awkward() (own "
    "processes)}, stored systems/flavors/field spellings by a deterministic hash, always with two extra fields (charge:int, "
    "tag:float); plus 'record' cells: records selected from every layout by full integer indexing. Oracles: ak.num at every "
    "axis, missing positions and nesting depth of the result == operand; single-array operations return every non-coordinate "
    "field unchanged (values, order) and exactly one valid coordinate set (no stale synonym); two-vector operations return "
    "coordinates only; a selected record is a vector record whose every accessor/method equals the float64 object built from "
    "the same coordinates (1e-10) and whose vector-valued methods return vector records. Non-trivial = layout with option type "
    "or depth >= 2; distinct by (cell, input)."
)
ASSUMPTIONS = [
    "missing records come back as missing coordinates at the same positions (option type may move from the record to its fields)",
    "registered mode runs in separate worker processes; register_awkward() is called once there",
]
TOL = mpf("1e-10")
COORD_GENERIC = {"x": "x", "px": "x", "y": "y", "py": "y", "rho": "rho", "pt": "rho", "phi": "phi", "z": "z", "pz": "z",
                 "theta": "theta", "eta": "eta", "t": "t", "E": "t", "e": "t", "energy": "t", "tau": "tau", "M": "tau", "m": "tau",
                 "mass": "tau"}
VALID_SETS = None


def _valid_sets():
    global VALID_SETS
    if VALID_SETS is None:
        VALID_SETS = {frozenset(R.coord_names(s)) for d in (2, 3, 4) for s in R.SYSTEMS[d]}
    return VALID_SETS


def reduce_candidates(cell, case):
    return iter(())


def cell_group(cell):
    return "registered" if cell["registered"] else "unregistered"


def cells(tier):
    out = []
    for reg in (False, True):
        for op in list(OPS.values()) + list(catalog.EXTRA_OPS.values()):
            if "synonym" in op.tags:
                continue
            for da in op.self_dims:
                for db in op.other_dims(da):
                    for li, lay in enumerate(build.AK_LAYOUTS):
                        if reg and tier == "quick" and (zlib.crc32(f"{op.name}{da}{db}".encode()) + li) % 3:
                            continue
                        h = zlib.crc32(f"{op.name}{da}{db}{lay}{reg}".encode())
                        SA = R.SYSTEMS[da]
                        cfg = {"id": f"op|{op.name}|{da}|{db or ''}|{lay}|{'reg' if reg else 'unreg'}", "group": "op",
                               "registered": reg, "op": op.name, "da": da, "db": db, "ka": lay, "sa": R.sysname(SA[h % len(SA)]),
                               "fa": "m" if op.momentum else "gm"[(h >> 5) % 2], "extra": "option" if (h >> 19) % 2 else True, "alt": (h >> 7) % 3, "scal": "arr" if (h >> 9) % 2 else "py"}
                        cfg["spa"] = "momentum" if cfg["fa"] == "m" and (h >> 11) % 2 else "generic"
                        if db:
                            SB = R.SYSTEMS[db]
                            cfg["sb"] = R.sysname(SB[(h >> 13) % len(SB)])
                            cfg["fb"] = "gm"[(h >> 15) % 2]
                            cfg["kb"] = (lay, lay, "object", "record")[(h >> 17) % 4]
                            cfg["spb"] = "momentum" if cfg["fb"] == "m" and cfg["kb"] != "object" and (h >> 19) % 2 else "generic"
                        out.append(cfg)
        for op in OPS.values():
            if "synonym" in op.tags or op.result != "vec":
                continue
            sec_scalar = [n for n in op.scalars if catalog.SCALAR_KIND[n] in ("angle", "factor", "beta", "gamma")]
            sec_vector = op.other in ("3", "4", "3or4") and ("boost" in op.tags or "axis" in op.tags)
            if not sec_scalar and not sec_vector:
                continue
            for da in op.self_dims:
                for db in op.other_dims(da):
                    if db and not sec_vector:
                        continue
                    h = zlib.crc32(f"deep{op.name}{da}{db}{reg}".encode())
                    if reg and tier == "quick" and h % 3:
                        continue
                    SA = R.SYSTEMS[da]
                    cfg = {"id": f"deep|{op.name}|{da}|{db or ''}|{'reg' if reg else 'unreg'}", "group": "deep", "registered": reg,
                           "op": op.name, "da": da, "db": db, "sa": R.sysname(SA[h % len(SA)]), "fa": "m" if op.momentum else "gm"[(h >> 5) % 2],
                           "ka": ("flat", "record")[(h >> 6) % 2], "deep": "vector" if (sec_vector and db) else "scalar"}
                    if db:
                        SB = R.SYSTEMS[db]
                        cfg["sb"] = R.sysname(SB[(h >> 13) % len(SB)])
                        cfg["fb"] = "gm"[(h >> 15) % 2]
                    out.append(cfg)
        for d in (2, 3, 4):
            for sa in R.SYSTEMS[d]:
                for fl in "gm":
                    for sp in (("generic", "momentum") if fl == "m" else ("generic",)):
                        if reg and tier == "quick" and sa != R.SYSTEMS[d][zlib.crc32(fl.encode() + bytes([d])) % len(R.SYSTEMS[d])]:
                            continue
                        out.append({"id": f"record|{d}{R.sysname(sa)}|{fl}|{sp}|{'reg' if reg else 'unreg'}", "group": "record",
                                    "registered": reg, "d": d, "sa": R.sysname(sa), "fa": fl, "spa": sp})
    return out


def examples(cell, tier):
    return 1 if tier == "quick" else 3


def strategy(cell, tier):
    if cell["group"] in ("op", "deep"):
        one = opcheck.case_strategy(catalog.get(cell["op"]), cell["db"], "f64", None)
    else:
        one = st.fixed_dictionaries({"a": gen.vec(("moderate",)), "b": gen.vec(("moderate",)), "s": st.fixed_dictionaries({
            "angle": st.floats(-3.0, 3.0), "factor": gen.factor(), "beta": gen.moderate_beta()})})
    return st.tuples(*([one] * lattice.N)).map(list)


def _ensure_mode(cell):
    if cell["registered"] and not getattr(vector, "_awkward_registered", False):
        vector.register_awkward()
    if not cell["registered"] and getattr(vector, "_awkward_registered", False):
        from vcheck import env

        raise env.HarnessError("unregistered-mode cell scheduled in a process where register_awkward() was called")


def check_case(cell, elems, ctx):
    _ensure_mode(cell)
    if cell["group"] == "op":
        _check_op(cell, elems, ctx)
    elif cell["group"] == "deep":
        _check_deep(cell, elems, ctx)
    else:
        _check_record(cell, elems, ctx)


def _structure(v):
    """(ndim, skeleton with None) of a vector or scalar array"""
    if isinstance(v, ak.Array):
        f = ak.fields(v)
        x = v[f[0]] if f else v
        return (x.ndim, build.skeleton(x))
    return ("not-an-array", type(v).__name__)


def _check_op(cell, elems, ctx):
    op = catalog.get(cell["op"])
    if "order" in op.scalars:
        for e in elems:
            e["s"]["order"] = elems[0]["s"]["order"]
    be = "awkward-registered" if cell["registered"] else "awkward"
    variant = f"{cell['ka']}|{cell['da']}{cell['sa']}" + (f"+{cell.get('kb')}|{cell['db']}{cell['sb']}" if cell.get("db") else "")
    o = lattice.evaluate(cell, elems, want_ref=False)
    if o.skipped:
        ctx.exclude(o.skipped)
        return
    where = f"{op.name} [{variant}; flavor {cell['fa']}; spelling {cell['spa']}; {be}]"
    if o.exc is not None:
        if isinstance(o.exc, ZeroDivisionError):
            ctx.exclude("singular")
            return
        ctx.fail("exception", f"{where} raised {type(o.exc).__name__}: {o.exc!s:.300}", op=op.name, variant=variant, backend=be)
        return
    res = o.result
    want = _structure(o.A)
    got = _structure(res)
    if got != want:
        ctx.fail("structure", f"{where}: result (ndim, structure) {got} != operand {want}", op=op.name, variant=variant, backend=be)
        return
    if op.result == "vec":
        kind = lattice.classify(res)
        if kind != "awkward-array":
            ctx.fail("behavior", f"{where}: result is {type(res).__name__} ({kind}), not an Awkward vector array", op=op.name,
                     variant=variant, backend=be)
            return
        fields = ak.fields(res)
        coords = [f for f in fields if f in COORD_GENERIC]
        others = [f for f in fields if f not in COORD_GENERIC]
        generic = [COORD_GENERIC[f] for f in coords]
        if len(set(generic)) != len(generic) or frozenset(generic) not in _valid_sets():
            ctx.fail("stale_field", f"{where}: result fields {fields} do not hold exactly one coordinate set", op=op.name,
                     variant=variant, backend=be)
            return
        single = not cell.get("db") or "axis" in op.tags
        in_others = [f for f in ak.fields(o.A) if f not in COORD_GENERIC]
        if "boost" in op.tags and cell.get("db"):
            ctx.fact("boost_fields", [op.name, cell["ka"], "kept" if others == in_others and in_others else ("none" if not others else "other")])
        if "boost" in op.tags and not others:
            # a boost transforms its subject by a secondary vector: keeping the subject's fields or returning coordinates only
            # are both readings of the statement - but one convention must hold for every boost spelling (finalize)
            pass
        elif single or "boost" in op.tags:
            if others != in_others:
                ctx.fail("extra_fields", f"{where}: non-coordinate fields {others} != operand's {in_others}", op=op.name,
                         variant=variant, backend=be)
                return
            for f in others:
                if ak.to_list(res[f]) != ak.to_list(o.A[f]):
                    ctx.fail("extra_fields", f"{where}: field {f!r} changed: {ak.to_list(res[f])} != {ak.to_list(o.A[f])}", op=op.name,
                             variant=variant, backend=be)
                    return
        elif others:
            ctx.fail("extra_fields", f"{where}: an operation combining two vectors returned non-coordinate fields {others}",
                     op=op.name, variant=variant, backend=be)
            return
        # the result still answers vector properties through its behavior
        try:
            _ = res.rho
        except Exception as e:  # noqa: BLE001
            ctx.fail("behavior", f"{where}: result does not behave as a vector: {e!r}", op=op.name, variant=variant, backend=be)
            return
    ctx.evaluation()
    if cell["ka"] not in ("flat", "regular"):
        ctx.nontrivial(sample={"call": where, "structure": str(want)[:200]})
    ctx.stratum(cell["ka"])
    ctx.evaluations -= 1


DEEP_COUNTS = [1, 2, 0, 3, 1, 2]  # secondary values per vector of the (shallower) operand; 9 values in all


def _check_deep(cell, elems, ctx):
    """the secondary argument (angle, factor, velocity, axis, booster) is one list level DEEPER than the vector operand:
    the result takes the broadcast structure (one vector per secondary value), every item is a vector record equal to the
    object-backend result for (vector i, secondary value ij), and the operand's extra fields are broadcast along."""
    op = catalog.get(cell["op"])
    if "order" in op.scalars:
        for e in elems:
            e["s"]["order"] = elems[0]["s"]["order"]
    da, db = cell["da"], cell["db"]
    sa = opcheck.parse_system(cell["sa"])
    be = "awkward-registered" if cell["registered"] else "awkward"
    mom = cell["fa"] == "m"
    variant = f"deep-{cell['deep']}|{cell['ka']}|{da}{cell['sa']}" + (f"+{db}{cell['sb']}" if db else "")
    where = f"{op.name} [{variant}; {be}]"
    rows_a = lattice.rows_for(sa, [e["a"]["c"] for e in elems], da)
    if rows_a is None:
        ctx.exclude("operand_not_representable")
        return
    single = cell["ka"] == "record"
    nvec = 1 if single else lattice.N
    counts = [3] if single else DEEP_COUNTS
    charge = [1, -1, 0, 2, -2, 1]
    flat = build.ak_flat(sa, rows_a, mom, "generic", {"charge": numpy.array(charge)})
    A = flat[0] if single else flat
    # secondary values: nsec = sum(counts), taken from the generated elements cyclically
    nsec = sum(counts)
    owner = [i for i, c in enumerate(counts) for _ in range(c)]
    sec_elems = [elems[(k * 5 + 1) % lattice.N] for k in range(nsec)]
    sc_obj = []
    if cell["deep"] == "vector":
        sb = opcheck.parse_system(cell["sb"])
        rows_b = lattice.rows_for(sb, [e["b"]["c"] for e in sec_elems], db)
        if rows_b is None:
            ctx.exclude("operand_not_representable")
            return
        fb = build.ak_flat(sb, rows_b, cell["fb"] == "m")
        B = fb if single else ak.unflatten(fb, counts)
        sc = dict(elems[0]["s"])
        sc_obj = [dict(sc) for _ in range(nsec)]
    else:
        B = None
        sc = {}
        sc_obj = [dict(elems[0]["s"]) for _ in range(nsec)]
        for name in op.scalars:
            kind = catalog.SCALAR_KIND[name]
            if kind in ("angle", "factor", "beta", "gamma"):
                vals = [e["s"][name] for e in sec_elems]
                arr = ak.Array(numpy.array(vals))
                sc[name] = arr if single else ak.unflatten(arr, counts)
                for k in range(nsec):
                    sc_obj[k][name] = vals[k]
            else:
                sc[name] = elems[0]["s"][name]
    try:
        res = op.call(A, B, sc)
    except Exception as e:  # noqa: BLE001
        if isinstance(e, ZeroDivisionError):
            ctx.exclude("singular")
            return
        ctx.fail("exception", f"{where} raised {type(e).__name__}: {e!s:.300}", op=op.name, variant=variant, backend=be)
        return
    ctx.evaluation(nsec)
    want_skel = [0] * 3 if single else [[0] * c for c in counts]
    kind = lattice.classify(res)
    if kind != "awkward-array":
        ctx.fail("behavior", f"{where}: result is {type(res).__name__} ({kind}), not an Awkward vector array", op=op.name, variant=variant, backend=be)
        return
    got_skel = build.vector_skeleton(res)
    if got_skel != want_skel:
        ctx.fail("structure", f"{where}: result structure {got_skel} (type {res.type}) but broadcasting the operand against its deeper "
                 f"secondary argument gives {want_skel}", op=op.name, variant=variant, backend=be)
        return
    try:
        item = res[0] if single else res[0][0]
    except Exception as e:  # noqa: BLE001
        ctx.fail("structure", f"{where}: the result (type {res.type}) cannot be indexed down to a vector: {type(e).__name__}", op=op.name,
                 variant=variant, backend=be)
        return
    if lattice.classify(item) != "awkward-record":
        ctx.fail("behavior", f"{where}: innermost items are {type(item).__name__}, not vector records", op=op.name, variant=variant, backend=be)
        return
    if "charge" in ak.fields(res) or "boost" not in op.tags:
        want_charge = [charge[0]] * 3 if single else [[charge[i]] * c for i, c in enumerate(counts)]
        if "charge" not in ak.fields(res) or ak.to_list(res["charge"]) != want_charge:
            ctx.fail("extra_fields", f"{where}: extra field 'charge' is {ak.to_list(res['charge']) if 'charge' in ak.fields(res) else 'missing'}, "
                     f"expected the operand's values broadcast: {want_charge}", op=op.name, variant=variant, backend=be)
            return
    sysr, rows = lattice.read_vector_rows(res)
    if len(rows) != nsec:
        ctx.fail("structure", f"{where}: {len(rows)} result vectors for {nsec} secondary values", op=op.name, variant=variant, backend=be)
        return
    for k in range(nsec):
        va = mpbackend.make(sa, rows_a[owner[k]], mom, False)
        vb = mpbackend.make(opcheck.parse_system(cell["sb"]), rows_b[k], cell["fb"] == "m", False) if cell["deep"] == "vector" else None
        try:
            ref = op.call(va, vb, sc_obj[k])
        except Exception:  # noqa: BLE001
            continue
        rs, rst = obs.system_of(ref), obs.stored(ref)
        c1, c2 = R.to_cartesian(sysr, rows[k]), R.to_cartesian(rs, rst)
        if not all(obs.finite(x) for x in c2):
            continue
        if len(c1) != len(c2) or not opcheck.vec_close(c1, c2, mpf("1e-9"), R.scale_of(c1, c2)):
            ctx.fail("value", f"{where}: result {k} (vector {owner[k]}) is {sysr}{opcheck.fmt(rows[k])}, the object backend gives "
                     f"{rs}{opcheck.fmt(rst)}", op=op.name, variant=variant, backend=be)
            return
    ctx.nontrivial(sample={"call": where, "counts": counts})
    ctx.evaluations -= 1


ACCESSORS = {2: ("x", "y", "rho", "rho2", "phi"), 3: ("z", "theta", "eta", "costheta", "cottheta", "mag", "mag2"),
             4: ("t", "t2", "tau", "tau2", "beta", "gamma", "rapidity")}
MOM_ACC = {2: ("px", "py", "pt", "pt2"), 3: ("pz", "p", "p2", "pseudorapidity"),
           4: ("E", "e", "energy", "M", "m", "mass", "Et", "Et2", "Mt", "Mt2", "mass2", "energy2")}


def _check_record(cell, elems, ctx):
    d = cell["d"]
    sa = opcheck.parse_system(cell["sa"])
    mom = cell["fa"] == "m"
    be = "awkward-registered" if cell["registered"] else "awkward"
    rows = lattice.rows_for(sa, [e["a"]["c"] for e in elems], d)
    if rows is None:
        ctx.exclude("operand_not_representable")
        return
    sc = elems[0]["s"]
    index = {"flat": lambda a, i: a[i], "jagged": None, "nested": None, "regular": lambda a, i: a[i // 3][i % 3]}
    jag = {0: (0, 0), 1: (0, 1), 2: (2, 0), 3: (2, 1), 4: (2, 2), 5: (3, 0)}
    nest = {0: (0, 0, 0), 1: (0, 0, 1), 2: (1, 0, 0), 3: (1, 0, 1), 4: (1, 0, 2), 5: (3, 0, 0)}
    for lay in ("flat", "jagged", "nested", "regular", "optrec", "optlist"):
        arr = build.build_layout(lay, sa, rows, mom, cell["spa"], extra=True)
        for i in range(lattice.N):
            if lay == "optrec" and build.OPT_MASK[i]:
                continue
            if lay in ("flat", "optrec"):
                rec = arr[i]
            elif lay == "regular":
                rec = arr[i // 3][i % 3]
            elif lay == "jagged":
                rec = arr[jag[i][0]][jag[i][1]]
            elif lay == "nested":
                a, b, c = nest[i]
                rec = arr[a][b][c]
            else:  # optlist: [[e0,e1], None, [e2,e3,e4], [e5]]
                a, b = {0: (0, 0), 1: (0, 1), 2: (2, 0), 3: (2, 1), 4: (2, 2), 5: (3, 0)}[i]
                rec = arr[a][b]
            variant = f"{lay}|{d}{cell['sa']}"
            where = f"record {i} of a {lay} {'momentum' if mom else 'generic'} array ({cell['spa']} spelling) [{variant}; {be}]"
            ctx.evaluation()
            if lattice.classify(rec) != "awkward-record":
                ctx.fail("record_type", f"{where}: selecting gives {type(rec).__name__}, not a vector record", op="getitem",
                         variant=variant, backend=be)
                return
            if isinstance(rec, Momentum) != mom or obs.dim_of(rec) != d or obs.system_of(rec) != sa:
                ctx.fail("record_type", f"{where}: record is {type(rec).__name__} with system {obs.system_of(rec)}", op="getitem",
                         variant=variant, backend=be)
                return
            ob = mpbackend.make(sa, rows[i], mom, False)
            names = []
            for k in range(2, d + 1):
                names += list(ACCESSORS[k]) + (list(MOM_ACC[k]) if mom else [])
            for nm in names:
                try:
                    x, y = getattr(rec, nm), getattr(ob, nm)
                except ZeroDivisionError:
                    continue
                except Exception as e:  # noqa: BLE001
                    ctx.fail("record_value", f"{where}: .{nm} raised {e!r}", op=nm, variant=variant, backend=be)
                    return
                if not opcheck.close(x, y, TOL, R.scale_of(x, y, rows[i])):
                    ctx.fail("record_value", f"{where}: .{nm} = {x!r} but the equivalent object gives {y!r}", op=nm, variant=variant,
                             backend=be)
                    return
            calls = [("rotateZ", lambda v: v.rotateZ(sc["angle"])), ("scale", lambda v: v.scale(sc["factor"])),
                     ("unit", lambda v: v.unit()), ("to_rhophi", lambda v: v.to_rhophi()), (f"neg{d}D", lambda v: getattr(v, f"neg{d}D")),
                     ("add_self", lambda v: v.add(v)), ("add_object", lambda v: v.add(ob)), ("like", lambda v: v.like(ob))]
            if d >= 3:
                calls += [("rotateX", lambda v: v.rotateX(sc["angle"])), ("to_Vector2D", lambda v: v.to_Vector2D())]
            if d == 3:
                calls += [("cross", lambda v: v.cross(ob))]
            if d == 4:
                calls += [("boostX", lambda v: v.boostX(beta=sc["beta"])), ("to_beta3", lambda v: v.to_beta3()),
                          ("boost_p4", lambda v: v.boost_p4(ob)), ("to_Vector3D", lambda v: v.to_Vector3D())]
            for nm, f in calls:
                try:
                    r1, r2 = f(rec), f(ob)
                except ZeroDivisionError:
                    continue
                except Exception as e:  # noqa: BLE001
                    ctx.fail("record_method", f"{where}: {nm} raised {type(e).__name__}: {e!s:.200}", op=nm, variant=variant, backend=be)
                    return
                if lattice.classify(r1) != "awkward-record":
                    ctx.fail("record_method", f"{where}: {nm} returned {type(r1).__name__}, not a vector record", op=nm,
                             variant=variant, backend=be)
                    return
                if obs.system_of(r1) != obs.system_of(r2) or isinstance(r1, Momentum) != isinstance(r2, Momentum):
                    ctx.fail("record_method", f"{where}: {nm} gives {type(r1).__name__}{obs.system_of(r1)}, object gives "
                             f"{type(r2).__name__}{obs.system_of(r2)}", op=nm, variant=variant, backend=be)
                    return
                s1, s2 = obs.stored(r1), obs.stored(r2)
                if not all(opcheck.close(x, y, TOL, R.scale_of(s1, s2)) for x, y in zip(s1, s2)):
                    ctx.fail("record_value", f"{where}: {nm} gives {opcheck.fmt(s1)}, object gives {opcheck.fmt(s2)}", op=nm,
                             variant=variant, backend=be)
                    return
            if lay not in ("flat", "regular"):
                ctx.nontrivial(key=[cell["id"], lay, i, rows[i]], sample={"record": where})
    ctx.evaluations -= 1


def describe(cell, case):
    return case[:1]


def finalize(tier, results):
    """boosts by a vector either all keep the subject's non-coordinate fields or all drop them"""
    seen = {}
    for r in results:
        for name, ka, how in r.get("facts", {}).get("boost_fields", []):
            seen.setdefault(how, []).append((name, ka))
    out = []
    if len([h for h in seen if h in ("kept", "none")]) > 1 or "other" in seen:
        minority = min((h for h in seen), key=lambda h: len(seen[h]))
        from vcheck import findings
        from vcheck.findings import Violation

        names = sorted({n for n, _ in seen[minority]})
        v = Violation("boost_fields_inconsistent", f"boosts by a vector disagree about the subject's non-coordinate fields: "
                      f"{ {h: sorted({n for n, _ in v_})[:8] for h, v_ in seen.items()} }", op=names[0], variant="extra_fields", backend="awkward")
        v.cell = {"id": "finalize|boost_fields"}
        v.case = {h: v_[:10] for h, v_ in seen.items()}
        if findings.match(PID, v) is None:
            out.append(v)
    return out
