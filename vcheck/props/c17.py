"""C17 - reductions of vector arrays are component-wise Cartesian reductions."""

from __future__ import annotations

import math

import numpy
from hypothesis import strategies as st
from mpmath import mpf

from vcheck import build, gen, lattice, obs, opcheck, refmodel as R

import awkward as ak  # noqa: E402
import vector  # noqa: E402
from vector._methods import Momentum  # noqa: E402

PID = "C17"
SHRINK = False
RULE = (
    "Cells = backend {NumPy, Awkward} x dimension x stored system (all 20) x flavor x field spelling. A case = up to 12 "
    "generated element vectors (some replaced by exact zero vectors expressed in the cell's system, e.g. rho=0 with arbitrary "
    "phi/theta/eta), a NumPy shape out of {(n,), (a,b), (0,), (a,0), (0,b), (a,b,c)} or an Awkward list structure with empty "
    "and missing lists (depth 2 and 3), and every supported (axis, keepdims[, mask_identity]) combination. Oracle: the Cartesian "
    "components of numpy.sum/.sum()/ak.sum == the same reducer applied to plain arrays of the elements' exact Cartesian "
    "components (reference converters at 60 digits; tolerance 1e-12*sum|.|), result shape/structure by the reducer's own rules, "
    "flavor kept; count_nonzero == count of elements whose reference (x,y,z,t) is not all zero; ak.count == number of present "
    "elements; empty lists sum to the zero vector. Non-trivial = non-Cartesian storage with >= 2 elements in a reduced "
    "segment; distinct by (cell, input)."
)
ASSUMPTIONS = [
    "numpy.sum / ak.sum on plain float arrays are the model for axis/keepdims semantics",
    "elements are well-conditioned (moderate stratum) apart from the exact zero vectors",
]
TOL = mpf("1e-11")


def reduce_candidates(cell, case):
    return iter(())


def cells(tier):
    out = []
    for be in ("numpy", "awkward"):
        for d in (2, 3, 4):
            for sa in R.SYSTEMS[d]:
                for fl in "gm":
                    sps = ("generic", "momentum") if (fl == "m" and be == "awkward") else ("generic",)
                    for sp in sps:
                        out.append({"id": f"{be}|{d}{R.sysname(sa)}|{fl}|{sp}", "backend": be, "d": d, "sa": R.sysname(sa), "fa": fl, "spa": sp})
    return out


def examples(cell, tier):
    return 4 if tier == "quick" else 40


NP_SHAPES = [(12,), (3, 4), (6, 2), (0,), (5,), (1,), (4, 0), (0, 3), (2, 3, 2), (1, 12)]
AK_STRUCTS = [
    ("d2", [3, 0, 4, 1, 4], []), ("d2", [2, 2, 2, 2, 2, 2], []), ("d2", [0, 0, 12], []), ("d2", [5, 0, 0, 7], [1]),
    ("d2", [1, 3, 0, 8], [2, 0]), ("d3", [[2, 0, 1], [4], [], [3, 2]], []), ("d3", [[6], [0, 0], [3, 3]], []),
    ("d1", [12], []),
    # a fourth entry: flat positions of missing *vectors* inside the lists (option-typed coordinates, what vector.Array makes of
    # [[{...}, None], ...]): they are neither summed nor counted
    ("d2", [3, 0, 4, 1, 4], [], [1, 5, 7, 11]), ("d2", [5, 0, 0, 7], [1], [0, 6]), ("d3", [[2, 0, 1], [4], [], [3, 2]], [], [2, 3, 9]),
    ("d1", [12], [], [0, 4]),
]


def strategy(cell, tier):
    d = cell["d"]
    # 4D: space-like elements too (stored with tau they carry a negative tau, and t = sqrt(mag2 - tau**2))
    el = gen.vec(("moderate", "moderate", "spacelike") if d == 4 else ("moderate",))
    return st.fixed_dictionaries({
        "elems": st.lists(el, min_size=12, max_size=12),
        "zero": st.lists(st.sampled_from((False, False, False, True, "az", "spatial", "zonly")), min_size=12, max_size=12),
        "zphi": st.floats(-3.0, 3.0), "zlong": st.floats(0.3, 2.5),
        "shape": st.sampled_from(range(len(NP_SHAPES))), "struct": st.sampled_from(range(len(AK_STRUCTS))),
        # NumPy: columns of different dtypes (integer-typed spatial coordinates next to a float temporal one, ...)
        "ints": st.sampled_from((None, None, "spatial", "azimuthal", "last")),
        "f32": st.booleans(),
    })


def _rows(cell, case):
    d = cell["d"]
    sa = opcheck.parse_system(cell["sa"])
    rows = []
    for e, z in zip(case["elems"], case["zero"]):
        if z:
            # exact zero vector (True), or a vector whose azimuthal part ("az") / whole spatial part ("spatial") is exactly
            # zero while a higher coordinate is not - expressed in the cell's stored system where that is representable
            c = tuple(mpf(x) for x in e["c"][:d])
            keep_long = z in ("az", "zonly") and d >= 3 and sa[1] == "z"
            keep_time = z in ("az", "spatial") and d == 4
            r = []
            r += [0.0, 0.0] if sa[0] == "xy" else [0.0, case["zphi"]]
            if d >= 3:
                if keep_long:
                    r.append(float(c[2]))
                else:
                    r.append(0.0 if sa[1] == "z" else (case["zlong"] if sa[1] == "theta" else case["zlong"] - 1.2))
            if d == 4:
                r.append(abs(float(c[3])) if keep_time else 0.0)
            rows.append(tuple(r))
        else:
            c = tuple(mpf(x) for x in e["c"][:d])
            if not R.representable(sa, c):
                return None
            rows.append(tuple(float(x) for x in R.from_cartesian(sa, c)))
    return rows


def _close_nested(got, want, scale):
    """compare nested lists of numbers / None"""
    if want is None or got is None:
        return want is None and got is None
    if isinstance(want, list):
        return isinstance(got, list) and len(got) == len(want) and all(_close_nested(g, w, scale) for g, w in zip(got, want))
    return opcheck.close(got, want, TOL, scale)


def check_case(cell, case, ctx):
    d = cell["d"]
    sa = opcheck.parse_system(cell["sa"])
    mom = cell["fa"] == "m"
    be = cell["backend"]
    variant = f"{d}{cell['sa']}"
    rows = _rows(cell, case)
    if rows is None:
        ctx.exclude("operand_not_representable")
        return
    int_cols = []
    if be == "numpy" and case.get("ints"):
        names_ = R.coord_names(sa)
        int_cols = {"spatial": list(range(min(3, d))), "azimuthal": [0, 1], "last": [d - 1]}[case["ints"]]

        def as_int(name, x):
            v = float(round(x))
            if name == "theta":
                return min(3.0, max(0.0, v)) if x == 0 else min(3.0, max(1.0, v))
            if name == "phi":
                return min(3.0, max(-3.0, v))
            return v

        rows = [tuple(as_int(names_[j], x) if j in int_cols else x for j, x in enumerate(r)) for r in rows]
    # Awkward: columns of different float widths (a float32 pt next to float64 angles, as in many files); the stored value is
    # the float32 number, the arithmetic promotes.  Only where no stored float32 column is squared on its own (rho with t or
    # without a temporal coordinate): there the unchanged library works in float64 throughout
    f32_first = bool(be == "awkward" and case.get("f32") and sa[0] == "rhophi" and (d < 4 or sa[2] == "t"))
    if f32_first:
        rows = [(float(numpy.float32(r[0])),) + tuple(r[1:]) for r in rows]
    exact = [R.to_cartesian(sa, r) for r in rows]
    if any(not obs.finite(x) for e in exact for x in e):
        ctx.exclude("operand_not_representable")
        return
    comps = [[float(e[k]) for e in exact] for k in range(d)]
    scale = R.scale_of(*[sum(abs(x) for x in c) for c in comps])
    nonzero = [any(e[k] != 0 for k in range(d)) for e in exact]
    cnames = ("x", "y", "z", "t")[:d]

    def fail(kind, msg, op):
        ctx.fail(kind, f"[{variant}; {be}; {'momentum' if mom else 'generic'}/{cell['spa']}] {msg}", op=op, variant=variant, backend=be)

    def cart_of_result(r):
        """dict name -> plain structure (numpy array / nested list) of the result's Cartesian components, read from
        stored coordinates with the reference converters"""
        system, rws = lattice.read_vector_rows(r)
        return system, [R.to_cartesian(system, rw) for rw in rws]

    if be == "numpy":
        shape = NP_SHAPES[case["shape"]]
        n = int(numpy.prod(shape))
        use = rows[:n] if n <= 12 else rows
        arr = build.np_array(sa, use, mom).reshape(shape) if n else build.np_array(sa, rows[:1], mom)[:0].reshape(shape)
        if int_cols:
            plain = arr.view(numpy.ndarray)
            fn = plain.dtype.names
            mixed = numpy.zeros(plain.shape, dtype=[(nm, numpy.int64 if j in int_cols else numpy.float64) for j, nm in enumerate(fn)])
            for nm in fn:
                mixed[nm] = plain[nm]
            arr = mixed.view(type(arr))
        ref = [numpy.array(c[:n], dtype=float).reshape(shape) for c in comps]
        nz = numpy.array(nonzero[:n], dtype=bool).reshape(shape)
        axes = [None] + list(range(len(shape))) + [-1]
        for ax in axes:
            for kd in (False, True):
                for spelling in ("numpy.sum", "method", "numpy.sum positional", "method positional"):
                    if spelling.endswith("positional") and kd:
                        continue
                    ctx.evaluation()
                    try:
                        if spelling == "numpy.sum":
                            r = numpy.sum(arr, axis=ax, keepdims=kd)
                        elif spelling == "method":
                            r = arr.sum(axis=ax, keepdims=kd)
                        elif spelling == "numpy.sum positional":
                            r = numpy.sum(arr, ax)
                        else:
                            r = arr.sum(ax)
                    except Exception as e:  # noqa: BLE001
                        fail("exception", f"{spelling}(shape {shape}, axis={ax}, keepdims={kd}) raised {type(e).__name__}: {e!s:.200}", "sum")
                        return
                    want = [numpy.sum(c, axis=ax, keepdims=kd) for c in ref]
                    wshape = numpy.shape(want[0])
                    if not isinstance(r, vector.backends.numpy.VectorNumpy) and not isinstance(r, vector.backends.object.VectorObject):
                        fail("result_type", f"sum(shape {shape}, axis={ax}, keepdims={kd}) returned {type(r).__name__}", "sum")
                        return
                    if isinstance(r, Momentum) != mom or obs.dim_of(r) != d:
                        fail("flavor", f"sum of a {'momentum' if mom else 'generic'} {d}D array returned {type(r).__name__}", "sum")
                        return
                    rshape = r.shape if isinstance(r, numpy.ndarray) else ()
                    # a full reduction may come back as a 1-element array or as an object: compare the element count
                    if tuple(rshape) != tuple(wshape) and not (int(numpy.prod(rshape or (1,))) == int(numpy.prod(wshape or (1,))) and ax is None and not kd):
                        fail("shape", f"sum(shape {shape}, axis={ax}, keepdims={kd}) has shape {rshape}, numpy's rule gives {wshape}", "sum")
                        return
                    _, carts = cart_of_result(r)
                    flatw = [numpy.asarray(w, dtype=float).reshape(-1) for w in want]
                    if len(carts) != len(flatw[0]):
                        fail("shape", f"sum(shape {shape}, axis={ax}, keepdims={kd}) has {len(carts)} elements, expected {len(flatw[0])}", "sum")
                        return
                    for i, c in enumerate(carts):
                        for k in range(d):
                            if not opcheck.close(c[k], flatw[k][i], TOL, scale):
                                fail("value", f"sum(shape {shape}, axis={ax}, keepdims={kd}) element {i}: {cnames[k]}={opcheck.fmt(c[k])} "
                                     f"but the sum of the elements' {cnames[k]} is {flatw[k][i]!r}", "sum")
                                return
                ctx.evaluation()
                try:
                    cn = numpy.count_nonzero(arr, axis=ax, keepdims=kd)
                except Exception as e:  # noqa: BLE001
                    fail("exception", f"count_nonzero(shape {shape}, axis={ax}, keepdims={kd}) raised {type(e).__name__}: {e!s:.200}", "count_nonzero")
                    return
                wantc = numpy.count_nonzero(nz, axis=ax, keepdims=kd)
                if numpy.shape(cn) != numpy.shape(wantc) or not numpy.array_equal(numpy.asarray(cn), numpy.asarray(wantc)):
                    fail("value", f"count_nonzero(shape {shape}, axis={ax}, keepdims={kd}) = {numpy.asarray(cn).tolist()} but "
                         f"{numpy.asarray(wantc).tolist()} elements are not the zero vector (zero mask {case['zero'][:n]})", "count_nonzero")
                    return
        if sa != opcheck.CART[d] and n >= 2:
            ctx.nontrivial(sample={"shape": shape, "system": cell["sa"], "first_rows": rows[:2]})
    else:
        kind, counts, nones = AK_STRUCTS[case["struct"]][:3]
        missing = AK_STRUCTS[case["struct"]][3] if len(AK_STRUCTS[case["struct"]]) > 3 else []
        keep = ~numpy.isin(numpy.arange(len(rows)), missing)
        flat = build.ak_flat(sa, rows, mom, cell["spa"])
        if f32_first:
            f0_ = ak.fields(flat)[0]
            flat = ak.zip({f: (ak.values_astype(flat[f], numpy.float32) if f == f0_ else flat[f]) for f in ak.fields(flat)},
                          with_name=flat.layout.parameter("__record__"), behavior=flat.behavior)
        if missing:
            flat = ak.zip({f: ak.mask(flat[f], keep) for f in ak.fields(flat)}, with_name=flat.layout.parameter("__record__"),
                          behavior=flat.behavior)
            nones = (nones, "missing vectors at", missing)

        def shape_plain(vals):
            a = ak.Array(numpy.array(vals))
            if missing:
                a = ak.mask(a, keep)
            return struct(a)

        def struct(a):
            if kind == "d1":
                return a
            if kind == "d2":
                j = ak.unflatten(a, counts)
                if AK_STRUCTS[case["struct"]][2]:
                    j = ak.mask(j, ~numpy.isin(numpy.arange(len(counts)), AK_STRUCTS[case["struct"]][2]))
                return j
            inner = [c for grp in counts for c in grp]
            outer = [len(grp) for grp in counts]
            return ak.unflatten(ak.unflatten(a, inner), outer)

        arr = struct(flat)
        ref = [shape_plain(c) for c in comps]
        nzr = shape_plain([bool(b) for b in nonzero])
        depth = {"d1": 1, "d2": 2, "d3": 3}[kind]
        axes = [None] + list(range(depth)) + [-1]
        for ax in axes:
            for kd in (False, True):
                # (mask_identity=True with lists that hold nothing but missing vectors: Awkward decides about the identity from
                # the list length, outside the library's reducer; the property says nothing about it)
                for mi in ((False,) if missing else (False, True)):
                    ctx.evaluation()
                    label = f"ak.sum(structure {kind}{counts} none={nones}, axis={ax}, keepdims={kd}, mask_identity={mi})"
                    try:
                        r = ak.sum(arr, axis=ax, keepdims=kd, mask_identity=mi)
                    except Exception as e:  # noqa: BLE001
                        fail("exception", f"{label} raised {type(e).__name__}: {e!s:.300}", "sum")
                        return
                    want = [ak.sum(c, axis=ax, keepdims=kd, mask_identity=mi) for c in ref]
                    if lattice.classify(r) not in ("awkward-array", "awkward-record"):
                        fail("result_type", f"{label} returned {type(r).__name__}", "sum")
                        return
                    if isinstance(r, Momentum) != mom or obs.dim_of(r) != d:
                        fail("flavor", f"{label}: sum of a {'momentum' if mom else 'generic'} {d}D array returned {type(r).__name__}", "sum")
                        return
                    system = obs.system_of(r)
                    if system != opcheck.CART[d]:
                        # convert through the reference converters element by element
                        sysr, carts = cart_of_result(r)
                        got = None
                    els = obs.stored(r)
                    for k in range(d):
                        g = els[k] if system == opcheck.CART[d] else None
                        if g is None:
                            fail("value", f"{label}: result stored in {system}, expected Cartesian components", "sum")
                            return
                        gl = ak.to_list(g) if isinstance(g, ak.Array) else g
                        wl = ak.to_list(want[k]) if isinstance(want[k], ak.Array) else want[k]
                        if not _close_nested(gl, wl, scale):
                            fail("value", f"{label}: {cnames[k]} = {gl} but the component sums are {wl}", "sum")
                            return
                ctx.evaluation()
                try:
                    cn = ak.count_nonzero(arr, axis=ax, keepdims=kd)
                    cc = ak.count(arr, axis=ax, keepdims=kd)
                except Exception as e:  # noqa: BLE001
                    fail("exception", f"ak.count/count_nonzero(structure {kind}{counts}, axis={ax}, keepdims={kd}) raised "
                         f"{type(e).__name__}: {e!s:.300}", "count")
                    return
                wn = ak.count_nonzero(nzr, axis=ax, keepdims=kd)
                wc = ak.count(ref[0], axis=ax, keepdims=kd)
                tl = lambda x: ak.to_list(x) if isinstance(x, ak.Array) else int(x)  # noqa: E731
                if tl(cn) != tl(wn):
                    fail("value", f"ak.count_nonzero(structure {kind}{counts} none={nones}, axis={ax}, keepdims={kd}) = {tl(cn)} but "
                         f"{tl(wn)} elements are not the zero vector", "count_nonzero")
                    return
                if tl(cc) != tl(wc):
                    fail("value", f"ak.count(structure {kind}{counts} none={nones}, axis={ax}, keepdims={kd}) = {tl(cc)}, elements "
                         f"present: {tl(wc)}", "count")
                    return
        if sa != opcheck.CART[d]:
            ctx.nontrivial(sample={"structure": [kind, counts, nones], "system": cell["sa"], "first_rows": rows[:2]})
    ctx.evaluations -= 1


def describe(cell, case):
    return {"shape": NP_SHAPES[case["shape"]], "struct": AK_STRUCTS[case["struct"]], "zero": case["zero"], "first": case["elems"][:2]}
