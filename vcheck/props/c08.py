"""C08 - SymPy expressions agree with the numeric backends.

For every catalogued operation and coordinate-system signature the SymPy backend builds an
expression in real symbols; it is compiled with lambdify(..., "mpmath") and evaluated at
generated points of the documented regular domain (2D/3D: off-axis; 4D: forward time-like;
gamma > 0), and compared with the 60-digit object backend (1e-30) and the float64 object
backend (1e-9) at the same point."""

from __future__ import annotations

import math
import zlib

import mpmath
import numpy
from hypothesis import strategies as st
from mpmath import mpf

from vcheck import build, catalog, gen, mpbackend, obs, opcheck, refmodel as R
from vcheck.catalog import OPS

PID = "C08"
SHRINK = False
RULE = (
    "Cells = catalogued operation x operand dimensions x stored system of each operand (every signature) x flavor (hash) - "
    "operands are SymPy vectors over real symbols; angles, velocities, gammas, tolerances, matrix and quaternion entries are "
    "symbols too, scale factors are exact dyadic numbers of both signs (the polar scale needs the sign of a number). A case = "
    "generated points (quick 3, thorough 25) of the documented regular domain: off-axis, forward time-like operands and boosters, "
    "|beta|<1, gamma>1. Oracle: lambdify(symbols, expr, 'mpmath') at 60 digits == the 60-digit object backend (1e-30*scale) "
    "and == the float64 object backend (1e-9*scale); vector results component-wise with identical coordinate classes, "
    "dimension and flavor; relational results compared after evaluation; structural == only for reflexivity. Non-trivial = the "
    "expression contains at least one symbol and the point has distinct non-zero components; distinct by (cell, point)."
)
ASSUMPTIONS = [
    "points where a dropped clamp / copysign / nan_to_num would matter (space-like, t<0, on-axis, gamma<0) are outside the generated domain, as the docs state",
    "boolean decisions are compared only outside a 1e-6 margin",
]

TOL_MP = mpf("1e-30")


def reduce_candidates(cell, case):
    if len(case["points"]) > 1:
        for p in case["points"]:
            yield {**case, "points": [p]}


def cells(tier):
    out = []
    for op in OPS.values():
        if "synonym" in op.tags and tier == "quick":
            continue
        if op.name == "isclose":
            continue
        for da in op.self_dims:
            for db in op.other_dims(da):
                for i, sa in enumerate(R.SYSTEMS[da]):
                    for j, sb in enumerate(R.SYSTEMS[db] if db else [None]):
                        orders = [None]
                        if "order" in op.scalars:
                            orders = list(gen.EULER_ORDERS) if tier == "thorough" else [gen.EULER_ORDERS[(i * 5 + k) % 12] for k in range(2)]
                        for order in orders:
                            h = zlib.crc32(f"{op.name}{da}{db}{i}{j}".encode())
                            fl = "gm"[h % 2] + "gm"[(h >> 1) % 2]
                            if op.momentum:
                                fl = "m" + fl[1]
                            cid = f"{op.name}|{da}{R.sysname(sa)}|{db or ''}{R.sysname(sb) if sb else ''}|{order or ''}"
                            out.append({"id": cid, "op": op.name, "da": da, "db": db, "sa": R.sysname(sa),
                                        "sb": R.sysname(sb) if sb else None, "order": order, "fl": fl})
    # isclose: the symbolic backend answers with an (in)equality of expressions; at numeric points it must decide as the
    # numeric backends do - true for identical stored coordinates (of either sign), false for clearly different ones
    for d in (2, 3, 4):
        for sa in R.SYSTEMS[d]:
            out.append({"id": f"pow|{d}{R.sysname(sa)}", "op": "isclose", "group": "pow", "da": d, "db": d, "sa": R.sysname(sa),
                        "sb": R.sysname(sa), "order": None, "fl": "gm"[zlib.crc32(("p" + R.sysname(sa)).encode()) % 2] + "g"})
    for d in (2, 3, 4):
        for sa in R.SYSTEMS[d]:
            out.append({"id": f"isclose|{d}{R.sysname(sa)}", "op": "isclose", "group": "isclose", "da": d, "db": d, "sa": R.sysname(sa),
                        "sb": R.sysname(sa), "order": None, "fl": "gm"[zlib.crc32(R.sysname(sa).encode()) % 2] + "g"})
    return out


def examples(cell, tier):
    return 1


def strategy(cell, tier):
    op = OPS[cell["op"]]
    npts = 3 if tier == "quick" else 25
    one = opcheck.case_strategy(op, cell["db"], "mp", cell["order"], strata=("moderate", "octant", "near_xy_plane", "ultra", "at_rest"))
    dy = st.integers(-40, 40).filter(lambda k: k != 0).map(lambda k: k / 8.0)
    return st.fixed_dictionaries({"points": st.lists(one, min_size=npts, max_size=npts), "factor": dy})


_SYM = {}


def _sympy_vec(system, prefix, momentum, keywords=None):
    import sympy
    from vector.backends import sympy as vs

    names = R.coord_names(system)
    syms = [sympy.Symbol(f"{prefix}_{n}", real=True) for n in names]
    AZ = {"xy": vs.AzimuthalSympyXY, "rhophi": vs.AzimuthalSympyRhoPhi}
    LO = {"z": vs.LongitudinalSympyZ, "theta": vs.LongitudinalSympyTheta, "eta": vs.LongitudinalSympyEta}
    TE = {"t": vs.TemporalSympyT, "tau": vs.TemporalSympyTau}
    d = len(system) + 1
    G = {2: vs.VectorSympy2D, 3: vs.VectorSympy3D, 4: vs.VectorSympy4D}
    Mo = {2: vs.MomentumSympy2D, 3: vs.MomentumSympy3D, 4: vs.MomentumSympy4D}
    kw = {"azimuthal": AZ[system[0]](syms[0], syms[1])}
    if d >= 3:
        kw["longitudinal"] = LO[system[1]](syms[2])
    if d == 4:
        kw["temporal"] = TE[system[2]](syms[3])
    cls = (Mo if momentum else G)[d]
    v = cls(**kw)
    if keywords is not None:
        # the documented keyword form (geometric names, or the momentum spellings on momentum classes)
        nm = build.names_for(system, "momentum" if (momentum and keywords % 2) else "generic", keywords // 2)
        v = cls(**dict(zip(nm, syms)))
    return v, syms


def _scalar_symbols(op, case0, factor):
    """symbolic stand-ins for the scalar arguments -> (args for the sympy call, symbols, getter of numeric values from a point)"""
    import sympy

    args, syms, getters = {}, [], []
    for name in op.scalars:
        kind = catalog.SCALAR_KIND[name]
        if kind == "order":
            args[name] = case0["s"][name]
        elif kind == "factor":
            if abs(factor * 8) % 2 == 1:
                # a symbolic factor whose sign is known to SymPy (the polar/theta/eta scale needs sign(factor))
                sy = sympy.Symbol("s_factor", negative=True) if factor < 0 else sympy.Symbol("s_factor", positive=True)
                args[name] = sy
                syms.append(sy)
                getters.append(lambda s, name=name: s[name])
            else:
                args[name] = factor
        elif kind.startswith("matrix"):
            keys = sorted(case0["s"][name])
            ms = {k: sympy.Symbol(f"m_{k}", real=True) for k in keys}
            args[name] = ms
            for k in keys:
                syms.append(ms[k])
                getters.append(lambda s, name=name, k=k: s[name][k])
        elif kind == "quat":
            qs = [sympy.Symbol(f"q_{i}", real=True) for i in range(4)]
            args[name] = qs
            for i in range(4):
                syms.append(qs[i])
                getters.append(lambda s, name=name, i=i: s[name][i])
        else:
            sy = sympy.Symbol(f"s_{name}", real=True)
            args[name] = sy
            syms.append(sy)
            getters.append(lambda s, name=name: s[name])
    return args, syms, getters


def _f64_consistent(f64vals, mpvals, scale):
    """the float64 backend's own accuracy is C02's subject: the three-way comparison is made only where it agrees with the
    60-digit backend to 1e-10 (ill-conditioned points drop out instead of raising a false alarm)"""
    try:
        return all(opcheck.close(x, y, mpf("1e-10"), scale) or R.angle_close(x, y, mpf("1e-10") * scale) for x, y in zip(f64vals, mpvals))
    except Exception:  # noqa: BLE001
        return False


class _Complex(Exception):
    pass


def _real(g):
    if isinstance(g, mpmath.mpc):
        if abs(g.imag) <= mpf("1e-25") * max(1, abs(g.real)):
            return g.real
        raise _Complex(str(g))
    return g


def _isclose_case(cell, case, ctx):
    import sympy

    d = cell["da"]
    sa = opcheck.parse_system(cell["sa"])
    fa = cell["fl"][0] == "m"
    variant = f"{d}{cell['sa']}"

    def fail(kind, msg):
        ctx.fail(kind, f"isclose {variant} [sympy]: {msg}", op="isclose", variant=variant, backend="sympy")

    V, syms_a = _sympy_vec(sa, "a", fa)
    W, syms_b = _sympy_vec(sa, "b", False)
    forms = {"isclose(w)": lambda: V.isclose(W), "isclose(w, rtol=1e-06, atol=1e-09)": lambda: V.isclose(W, rtol=1e-06, atol=1e-09),
             "isclose(w, 1e-05, 1e-08)": lambda: V.isclose(W, 1e-05, 1e-08)}
    exprs = {}
    for nm, f in forms.items():
        try:
            exprs[nm] = f()
        except Exception as e:  # noqa: BLE001
            fail("exception", f"{nm} raised {type(e).__name__}: {e!s:.200}")
            return
    for p in case["points"]:
        a, _ = opcheck.canon(p, d, d)
        if not R.representable(sa, a) or not (R.rho2(a) > 0) or (d == 4 and not (a[3] > 0 and R.tau2(a) > 0)):
            ctx.exclude("outside_sympy_domain")
            continue
        st_a = [float(x) for x in R.from_cartesian(sa, a)]
        if any(abs(x) < 1e-3 for x in st_a):
            ctx.exclude("decision_margin")
            continue
        for k in range(-1, len(st_a)):
            # k = -1: identical operands; otherwise coordinate k differs by 30 %
            st_b = [x * (1.3 if i == k else 1.0) for i, x in enumerate(st_a)]
            va = mpbackend.make(sa, tuple(st_a), fa, False)
            vb = mpbackend.make(sa, tuple(st_b), False, False)
            want = bool(va.isclose(vb))
            if want != (k == -1):
                ctx.exclude("numeric_backend_disagrees_with_construction")
                continue
            subs = {s_: sympy.Rational(v) for s_, v in zip(syms_a + syms_b, st_a + st_b)}
            for nm, ex in exprs.items():
                ctx.evaluation()
                try:
                    got = bool(ex.subs(subs)) if not isinstance(ex, bool) else ex
                except Exception as e:  # noqa: BLE001
                    fail("undecided", f"{nm} = {str(ex)[:160]} does not evaluate to a truth value at a={st_a} b={st_b}: {e!s:.120}")
                    return
                if got != want:
                    fail("bool", f"{nm} evaluates to {got} at stored a={st_a} b={st_b}; the object backend says {want}")
                    return
            ctx.nontrivial(key=[cell["id"], st_a, k], sample={"stored_a": st_a, "differs_in": k})
    ctx.evaluations -= 1


def _pow_case(cell, case, ctx):
    """v ** n, abs(v), numpy.square / sqrt / power of a symbolic vector (the SymPy backend's own ufunc hook) against the float64
    object backend at points of the regular domain"""
    import sympy

    d = cell["da"]
    sa = opcheck.parse_system(cell["sa"])
    fa = cell["fl"][0] == "m"
    variant = f"{d}{cell['sa']}"

    def fail(kind, msg, opn):
        ctx.fail(kind, f"{opn} {variant} [sympy]: {msg}", op=opn, variant=variant, backend="sympy")

    V, syms = _sympy_vec(sa, "a", fa)
    forms = [(f"v**{n}", (lambda n: lambda v: v**n)(n)) for n in (1, 2, 3, 4, -1, -2, 0.5, 2.5)] + [
        ("abs(v)", lambda v: abs(v)), ("numpy.square(v)", lambda v: numpy.square(v)), ("numpy.sqrt(v)", lambda v: numpy.sqrt(v)),
        ("numpy.power(v, 3)", lambda v: numpy.power(v, 3)), ("numpy.cbrt(v)", lambda v: numpy.cbrt(v))]
    funcs = []
    for nm, f in forms:
        try:
            funcs.append((nm, f, sympy.lambdify(syms, f(V), modules="mpmath")))
        except Exception as e:  # noqa: BLE001
            fail("exception", f"building {nm} raised {type(e).__name__}: {e!s:.200}", nm)
            return
    for p in case["points"]:
        a, _ = opcheck.canon(p, d, d)
        if not R.representable(sa, a) or not (R.rho2(a) > 0) or (d == 4 and not (a[3] > 0 and R.tau2(a) > 0)):
            ctx.exclude("outside_sympy_domain")
            continue
        st_a = [float(x) for x in R.from_cartesian(sa, a)]
        va = mpbackend.make(sa, tuple(st_a), fa, False)
        for nm, f, lam in funcs:
            ctx.evaluation()
            try:
                with numpy.errstate(all="ignore"):
                    want = float(f(va))
            except Exception:  # noqa: BLE001
                ctx.exclude("numeric_backend_raises")
                continue
            if not math.isfinite(want):
                ctx.exclude("nonfinite_reference")
                continue
            try:
                got = _real(lam(*[mpf(x) for x in st_a]))
            except (_Complex, ZeroDivisionError):
                ctx.exclude("mp_singular")
                continue
            except Exception as e:  # noqa: BLE001
                fail("exception", f"evaluating {nm} raised {type(e).__name__}: {e!s:.200} at stored {st_a}", nm)
                return
            if abs(mpf(got) - mpf(want)) > mpf("1e-9") * max(abs(mpf(want)), 1):
                fail("value", f"{nm} evaluates to {opcheck.fmt(got)} at stored a={st_a}; the object backend gives {want!r}", nm)
                return
        ctx.nontrivial(key=[cell["id"], st_a], sample={"stored_a": st_a, "forms": [nm for nm, _, _ in funcs][:4]})
    ctx.evaluations -= 1


def check_case(cell, case, ctx):
    import sympy

    if cell.get("group") == "isclose":
        return _isclose_case(cell, case, ctx)
    if cell.get("group") == "pow":
        return _pow_case(cell, case, ctx)
    op = OPS[cell["op"]]
    da, db = cell["da"], cell["db"]
    sa = opcheck.parse_system(cell["sa"])
    sb = opcheck.parse_system(cell["sb"]) if cell["sb"] else None
    fa, fb = cell["fl"][0] == "m", cell["fl"][1] == "m"
    variant = f"{da}{cell['sa']}" + (f"+{db}{cell['sb']}" if db else "") + (f"@{cell['order']}" if cell["order"] else "")
    pts = case["points"]
    factor = case["factor"]

    def fail(kind, msg):
        ctx.fail(kind, f"{op.name} {variant} [sympy; flavors {cell['fl']}]: {msg}", op=op.name, variant=variant, backend="sympy")

    V, syms_a = _sympy_vec(sa, "a", fa)
    W, syms_b = (_sympy_vec(sb, "b", fb) if db else (None, []))
    # the keyword constructors must build the same vector as the coordinate-object form (every spelling)
    for which, system, mom, ref in (("a", sa, fa, V),) + ((("b", sb, fb, W),) if db else ()):
        for kwsel in range(6 if mom else 1):
            try:
                K = _sympy_vec(system, which, mom, keywords=kwsel * (1 if mom else 2))[0]
            except Exception as e:  # noqa: BLE001
                fail("constructor", f"keyword construction of a {R.sysname(system)} SymPy vector raised {type(e).__name__}: {e!s:.200}")
                return
            same = type(K) is type(ref) and obs.system_of(K) == obs.system_of(ref) == tuple(system) and \
                tuple(obs.stored(K)) == tuple(obs.stored(ref))
            if not same:
                fail("constructor", f"keyword construction ({'momentum' if mom else 'generic'} spelling {kwsel}) of a "
                     f"{R.sysname(system)} SymPy vector stores {R.sysname(obs.system_of(K))} {obs.stored(K)}; the coordinate-object "
                     f"form stores {R.sysname(obs.system_of(ref))} {obs.stored(ref)}")
                return
    if op.name in ("equal", "not_equal"):
        # structural comparison of expressions: only reflexivity is meaningful
        ctx.evaluation()
        try:
            r = op.call(V, _sympy_vec(sa, "a", fa)[0], {})
        except Exception as e:  # noqa: BLE001
            fail("exception", f"raised {type(e).__name__}: {e!s:.200}")
            return
        if bool(r) != (op.name == "equal"):
            fail("reflexive", f"v.{op.name}(v) is {r}")
            return
        if sa != sb:
            ctx.exclude("structural_comparison")
        else:
            ctx.nontrivial(key=[cell["id"]], sample={"reflexive": op.name})
        ctx.evaluations -= 1
        return
    sargs, syms_s, getters = _scalar_symbols(op, pts[0], factor)
    try:
        expr = op.call(V, W, sargs)
    except Exception as e:  # noqa: BLE001
        fail("exception", f"building the expression raised {type(e).__name__}: {e!s:.300}")
        return
    allsyms = syms_a + syms_b + syms_s
    if op.result == "vec":
        try:
            sysr = obs.system_of(expr)
            comps = list(obs.stored(expr))
            rdim, rmom = obs.dim_of(expr), obs.is_momentum(expr)
        except Exception as e:  # noqa: BLE001
            fail("result_type", f"result {type(expr).__name__} is not a readable vector: {e!r}")
            return
    else:
        comps = [expr]
    derived = []
    if op.result == "vec":
        # the accessors of a symbolic result are part of the API too: a vector returned by one operation is the operand
        # of the next (phi of a scaled vector, eta of a rotated one, tau of a boosted one ...)
        derived = ["x", "y", "rho", "phi"] + (["z", "theta", "eta"] if rdim >= 3 else []) + (["t", "tau"] if rdim == 4 else [])
        derived = [n for n in derived if n not in R.coord_names(sysr)]
        try:
            comps = comps + [getattr(expr, n) for n in derived]
        except Exception as e:  # noqa: BLE001
            fail("exception", f"an accessor of the symbolic result raised {type(e).__name__}: {e!s:.300}")
            return
    # the operator spellings (a + b, a - b, a * s, s * a, a / s) go through the SymPy backend's own ufunc hook
    opforms = {"add": lambda: V + W, "subtract": lambda: V - W, "scale": lambda: V * sargs["factor"]}
    nops = 0
    if op.name in opforms:
        try:
            e2 = opforms[op.name]()
            if obs.system_of(e2) != sysr or type(e2) is not type(expr):
                fail("operator", f"the operator form returns {type(e2).__name__} stored as {R.sysname(obs.system_of(e2))}, the method "
                     f"{type(expr).__name__} stored as {R.sysname(sysr)}")
                return
            oc = list(obs.stored(e2))
            comps = comps + oc
            nops = len(oc)
        except Exception as e:  # noqa: BLE001
            fail("exception", f"the operator form raised {type(e).__name__}: {e!s:.300}")
            return
    nstored = len(comps) - len(derived) - nops
    try:
        funcs = [sympy.lambdify(allsyms, c, modules="mpmath") for c in comps]
    except Exception as e:  # noqa: BLE001
        fail("exception", f"lambdify raised {type(e).__name__}: {e!s:.300}")
        return
    has_symbols = any(getattr(c, "free_symbols", None) for c in comps)
    for p in pts:
        ctx.evaluation()
        a, b = opcheck.canon(p, da, db)
        s_ref = opcheck.mp_scalars(p["s"])
        if "factor" in s_ref:
            s_ref["factor"] = mpf(factor)
        # documented regular domain of the symbolic backend
        if not op.pre(a, b, s_ref):
            ctx.exclude("precondition")
            continue
        if da == 4 and not (a[3] > 0 and R.tau2(a) > 0):
            ctx.exclude("outside_sympy_domain")
            continue
        if db == 4 and not (b[3] > 0 and R.tau2(b) > 0):
            ctx.exclude("outside_sympy_domain")
            continue
        if not (R.rho2(a) > 0) or (db and not (R.rho2(b) > 0 or "beta3" in op.tags and False)):
            ctx.exclude("outside_sympy_domain")
            continue
        if "gamma" in s_ref and not (s_ref["gamma"] > 1):
            s_ref["gamma"] = abs(s_ref["gamma"]) + mpf("0.001")
        if "factor" in s_ref and factor < 0 and da == 4 and sa[2] == "tau":
            ctx.exclude("result_not_representable")
            continue
        if not R.representable(sa, a) or (sb and not R.representable(sb, b)):
            ctx.exclude("operand_not_representable")
            continue
        if op.result == "bool":
            m = catalog.margin(op, a, b, s_ref)
            if m is not None and m < mpf("1e-6"):
                ctx.exclude("decision_margin")
                continue
        va, _ = obs.build(sa, a, True, fa)
        vb = obs.build(sb, b, True, fb)[0] if db else None
        vals = list(obs.stored(va)) + (list(obs.stored(vb)) if db else []) + [mpf(g(s_ref)) for g in getters]
        try:
            ref = op.call(va, vb, s_ref)
        except ZeroDivisionError:
            ctx.exclude("mp_singular")
            continue
        except Exception as e:  # noqa: BLE001
            ctx.exclude("numeric_backend_raises")
            continue
        try:
            got = [_real(f(*vals)) for f in funcs]
        except _Complex as e:
            # the symbolic backend has no clamp: acos/sqrt arguments a rounding error outside their domain are documented
            # differences; a genuinely complex value is not
            fail("complex", f"expression evaluates to a complex number {e} at a={opcheck.fmt(a)} b={opcheck.fmt(b) if b else None}")
            return
        except ZeroDivisionError:
            ctx.exclude("mp_singular")
            continue
        except Exception as e:  # noqa: BLE001
            fail("exception", f"evaluating the expression raised {type(e).__name__}: {e!s:.200} at a={opcheck.fmt(a)}")
            return
        # float64 object backend at the same point
        fa64, _ = obs.build(sa, a, False, fa)
        fb64 = obs.build(sb, b, False, fb)[0] if db else None
        s64 = dict(p["s"])
        if "factor" in s64:
            s64["factor"] = factor
        if "gamma" in s64:
            s64["gamma"] = float(s_ref["gamma"])
        try:
            ref64 = op.call(fa64, fb64, s64)
        except Exception:  # noqa: BLE001
            ref64 = None
        scale = R.scale_of(a, b)
        if op.result == "vec":
            if obs.system_of(ref) != sysr or obs.dim_of(ref) != rdim or obs.is_momentum(ref) != rmom:
                fail("result_type", f"symbolic result is {rdim}D {sysr} {'momentum' if rmom else 'generic'}, numeric backend gives "
                     f"{obs.dim_of(ref)}D {obs.system_of(ref)} {'momentum' if obs.is_momentum(ref) else 'generic'}")
                return
            rst = obs.stored(ref)
            rc = R.to_cartesian(sysr, rst)
            if not R.representable(sysr, rc):
                ctx.exclude("result_not_representable")
                continue
            # the result itself must lie in the documented domain (forward time-like, off-axis): otherwise the numeric
            # backends apply sign / NaN conventions the symbolic backend documents it cannot express
            if (len(rc) == 4 and not (rc[3] > 0 and R.tau2(rc) > 0)) or not (R.rho2(rc) > mpf("1e-40") * R.scale_of(rc) ** 2):
                ctx.exclude("result_outside_sympy_domain")
                continue
            scale = R.scale_of(a, b, rst)
            for k, (g, r) in enumerate(zip(got[:nstored], rst)):
                if not opcheck.close(g, r, TOL_MP, scale) and not (R.coord_names(sysr)[k] == "phi" and R.angle_close(g, r, TOL_MP * scale)):
                    fail("value", f"component {R.coord_names(sysr)[k]} evaluates to {opcheck.fmt(g)} but the 60-digit backend gives "
                         f"{opcheck.fmt(r)}; a={opcheck.fmt(a)} b={opcheck.fmt(b) if b else None} scalars={ {k2: opcheck.fmt(v) if not isinstance(v, (dict, list, str)) else v for k2, v in s_ref.items()} }")
                    return
            # a Python-float factor enters the expression as a 53-bit literal and SymPy folds it (1/1.25 -> 0.8): accessors
            # computed from such folded constants agree to double precision only
            tol_d = mpf("1e-13") if any(isinstance(v, float) for v in sargs.values()) else TOL_MP
            for k, g in enumerate(got[nstored + len(derived):]):
                r = rst[k]
                if not opcheck.close(g, r, TOL_MP, scale) and not (R.coord_names(sysr)[k] == "phi" and R.angle_close(g, r, TOL_MP * scale)):
                    fail("value", f"operator form: component {R.coord_names(sysr)[k]} evaluates to {opcheck.fmt(g)} but the 60-digit backend "
                         f"gives {opcheck.fmt(r)} (the method form agrees with it); a={opcheck.fmt(a)} b={opcheck.fmt(b) if b else None}")
                    return
            for n, g in zip(derived, got[nstored:nstored + len(derived)]):
                try:
                    r = getattr(ref, n)
                except ZeroDivisionError:
                    continue
                if not obs.finite(r):
                    continue
                if not opcheck.close(g, r, tol_d, scale) and not (n == "phi" and R.angle_close(g, r, tol_d * scale)):
                    fail("value", f"accessor .{n} of the symbolic result evaluates to {opcheck.fmt(g)} but the 60-digit backend gives "
                         f"{opcheck.fmt(r)} for the same result; a={opcheck.fmt(a)} b={opcheck.fmt(b) if b else None} "
                         f"scalars={ {k2: opcheck.fmt(v) if not isinstance(v, (dict, list, str)) else v for k2, v in s_ref.items()} }")
                    return
            if ref64 is not None and p["a"]["stratum"] == "moderate" and _f64_consistent(obs.stored(ref64), rst, scale):
                st64 = obs.stored(ref64)
                for k, (g, r) in enumerate(zip(got[:nstored], st64)):
                    if obs.finite(r) and not opcheck.close(g, r, opcheck.F64_TOL, scale) and not R.angle_close(g, r, opcheck.F64_TOL * scale):
                        fail("value_f64", f"component {k} evaluates to {opcheck.fmt(g)} but the float64 backend gives {r!r}")
                        return
        elif op.result == "bool":
            g = got[0]
            gb = bool(g) if not hasattr(g, "is_Relational") else bool(g)
            if gb != bool(ref):
                fail("value", f"evaluates to {gb} but the numeric backend gives {bool(ref)}; a={opcheck.fmt(a)} b={opcheck.fmt(b) if b else None}")
                return
        else:
            g = got[0]
            scale = R.scale_of(a, b, ref)
            if op.name == "deltaangle":
                ok = opcheck.close(mpmath.cos(g), mpmath.cos(ref), TOL_MP, 1)
            elif op.result == "angle":
                ok = R.angle_close(g, ref, TOL_MP * scale)
            else:
                ok = opcheck.close(g, ref, TOL_MP, scale)
            if not ok:
                fail("value", f"evaluates to {opcheck.fmt(g)} but the 60-digit backend gives {opcheck.fmt(ref)}; a={opcheck.fmt(a)} "
                     f"b={opcheck.fmt(b) if b else None}")
                return
            if ref64 is not None and p["a"]["stratum"] == "moderate" and obs.finite(ref64) and _f64_consistent([ref64], [ref], scale):
                ok = opcheck.close(g, ref64, opcheck.F64_TOL, scale) or (op.result == "angle" and R.angle_close(g, ref64, opcheck.F64_TOL * scale))
                if op.name == "deltaangle":
                    ok = opcheck.close(mpmath.cos(g), mpmath.cos(mpf(float(ref64))), opcheck.F64_TOL, 1)
                if not ok:
                    fail("value_f64", f"evaluates to {opcheck.fmt(g)} but the float64 backend gives {ref64!r}")
                    return
        if has_symbols and opcheck.nonzero_components(a, b):
            ctx.nontrivial(key=[cell["id"], p], sample={"point": {"a": p["a"]["c"][:da], "b": (p["b"]["c"][:db] if db else None)},
                                                        "expr": str(comps[0])[:120]})
    ctx.evaluations -= 1


def describe(cell, case):
    return {"points": [{"a": p["a"], "b": p.get("b"), "s": p["s"]} for p in case["points"][:2]], "factor": case["factor"]}
