"""C07 - numba-compiled code behaves like the interpreter.

Small programs are generated from a grammar over the numba-supported API, emitted as Python
source, compiled with numba.njit and run both compiled and interpreted (py_func) on the
same generated operands."""

from __future__ import annotations

import itertools
import math
import zlib

import numpy
from hypothesis import strategies as st
from mpmath import mpf

from vcheck import catalog, env, gen, lattice, mpbackend, obs, opcheck, refmodel as R
from vcheck.catalog import OPS
from vcheck.findings import Violation

PID = "C07"
SHRINK = False
RULE = (
    "Cells = stored system and flavor of the argument vectors (all 20 systems x 2 flavors for one-vector programs; all "
    "same-dimension system pairs (quick: a covering sample) and the documented mixed-dimension pairs for two-vector programs) x "
    "program part; Awkward cells = jagged arrays of vectors of every system iterated inside a compiled function. A case = a "
    "generated program of 6-8 statements, each a chain of 1-3 calls over the API (properties, momentum synonyms, unary/"
    "scalar-argument/binary methods, rotations, boosts, conversions to_<system>/to_VectorND, operators, vector.obj(...) "
    "construction) with generated operand values and scalar arguments. Oracle: f(*args) == f.py_func(*args): numbers at "
    "1e-9*scale, booleans equal outside a 1e-6 margin, vector results with identical class (flavor), dimension and coordinate "
    "classes. A statement that fails to compile for some signatures of a dimension but compiles for others is a violation; "
    "one that compiles nowhere is reported as unsupported (not a violation). Thorough: every (operation, signature) at least "
    "once. Non-trivial = arguments not all-Cartesian-generic or a chain of >= 2 calls; distinct by (cell, program, input)."
)
ASSUMPTIONS = [
    "compiled and interpreted results may differ in the last ulps (LLVM contraction, libm): 1e-9*scale on well-conditioned operands",
    "operations the interpreter itself rejects for the generated operands are not part of a program",
]
TOL = mpf("1e-9")

PROPS = {2: ["x", "y", "rho", "rho2", "phi"], 3: ["z", "theta", "eta", "costheta", "cottheta", "mag", "mag2"],
         4: ["t", "t2", "tau", "tau2", "beta", "gamma", "rapidity"]}
MOM_PROPS = {2: ["px", "py", "pt", "pt2"], 3: ["pz", "p", "p2", "pseudorapidity"],
             4: ["E", "energy", "E2", "energy2", "M", "mass", "M2", "mass2", "Et", "Et2", "Mt", "Mt2", "transverse_energy", "transverse_mass"]}


def props_for(d, mom):
    out = []
    for k in range(2, d + 1):
        out += PROPS[k] + (MOM_PROPS[k] if mom else [])
    return out


def _conv_names(d):
    return ["to_" + "".join(R.coord_names(s)) for dd in (2, 3, 4) for s in R.SYSTEMS[dd] if dd <= d]


# unary statement templates: name -> (min_dim, max_dim, template, result dim function or None for scalar)
def unary_templates(d, mom):
    t = {}
    for p in props_for(d, mom):
        t["p:" + p] = ("{V}." + p, None)
    t["unit"] = ("{V}.unit()", d)
    t["neg2D"] = ("{V}.neg2D", d)
    t["scale"] = ("{V}.scale(s_factor)", d)
    t["scale2D"] = ("{V}.scale2D(s_factor)", d)
    t["rotateZ"] = ("{V}.rotateZ(s_angle)", d)
    t["transform2D"] = ("{V}.transform2D(m2)", d)
    t["op_neg"] = ("-{V}", d)
    t["op_pos"] = ("+{V}", d)
    t["op_mul"] = ("{V} * s_factor", d)
    t["op_rmul"] = ("s_factor * {V}", d)
    t["op_div"] = ("{V} / s_factor", d)
    t["op_abs"] = ("abs({V})", None)
    t["op_pow2"] = ("{V} ** 2", None)
    t["np_abs"] = ("numpy.absolute({V})", None)
    t["np_square"] = ("numpy.square({V})", None)
    t["np_sqrt"] = ("numpy.sqrt({V})", None)
    t["to_Vector2D"] = ("{V}.to_Vector2D()", 2)
    t["to_Vector3D"] = ("{V}.to_Vector3D()", 3)
    t["to_Vector4D"] = ("{V}.to_Vector4D()", 4)
    for cn in _conv_names(d):
        t["c:" + cn] = ("{V}." + cn + "()", None if False else {"xy": 2, "rhophi": 2}.get(cn[3:], None) or (3 if cn[3:] in (
            "xyz", "xytheta", "xyeta", "rhophiz", "rhophitheta", "rhophieta") else 4))
    if d >= 3:
        t["neg3D"] = ("{V}.neg3D", d)
        t["scale3D"] = ("{V}.scale3D(s_factor)", d)
        t["rotateX"] = ("{V}.rotateX(s_angle)", d)
        t["rotateY"] = ("{V}.rotateY(s_angle)", d)
        t["rotate_euler"] = ('{V}.rotate_euler(s_phi, s_theta, s_psi, order="{ORDER}")', d)
        t["rotate_nautical"] = ("{V}.rotate_nautical(s_phi, s_theta, s_psi)", d)
        t["rotate_quaternion"] = ("{V}.rotate_quaternion(q0, q1, q2, q3)", d)
        t["transform3D"] = ("{V}.transform3D(m3)", d)
    if d == 4:
        t["neg4D"] = ("{V}.neg4D", d)
        t["scale4D"] = ("{V}.scale4D(s_factor)", d)
        t["to_beta3"] = ("{V}.to_beta3()", 3)
        t["transform4D"] = ("{V}.transform4D(m4)", d)
        for ax in "XYZ":
            t[f"boost{ax}_beta"] = (f"{{V}}.boost{ax}(beta=s_beta)", d)
            t[f"boost{ax}_gamma"] = (f"{{V}}.boost{ax}(gamma=s_gamma)", d)
        for nm in ("is_timelike", "is_spacelike", "is_lightlike"):
            t[nm] = ("{V}." + nm + "(s_tolerance)", None)
    return t


def binary_templates(da, db):
    t = {}
    if da == db:
        for nm in ("dot", "add", "subtract", "equal", "not_equal", "isclose"):
            t[nm] = ("{V}." + nm + "({W})", da if nm in ("add", "subtract") else None)
        for nm in ("is_parallel", "is_antiparallel", "is_perpendicular"):
            t[nm] = ("{V}." + nm + "({W}, s_tolerance)", None)
        t["isclose_tol"] = ("{V}.isclose({W}, s_rtol, s_atol)", None)
        t["isclose_kw"] = ("{V}.isclose({W}, rtol=s_rtol, atol=s_atol)", None)
        t["op_add"] = ("{V} + {W}", da)
        t["op_sub"] = ("{V} - {W}", da)
        t["op_matmul"] = ("{V} @ {W}", None)
        t["op_eq"] = ("{V} == {W}", None)
        t["op_ne"] = ("{V} != {W}", None)
    t["deltaphi"] = ("{V}.deltaphi({W})", None)
    if da >= 3 and db >= 3:
        for nm in ("deltaangle", "deltaeta", "deltaR", "deltaR2"):
            t[nm] = ("{V}." + nm + "({W})", None)
    if da == 3 and db == 3:
        t["cross"] = ("{V}.cross({W})", 3)
    if da >= 3 and db == 3:
        t["rotate_axis"] = ("{V}.rotate_axis({W}, s_angle)", da)
    if da == 4 and db == 4:
        for nm in ("deltaRapidityPhi", "deltaRapidityPhi2"):
            t[nm] = ("{V}." + nm + "({W})", None)
        for nm in ("boost_p4", "boost", "boostCM_of_p4", "boostCM_of"):
            t[nm] = ("{V}." + nm + "({W})", 4)
    if da == 4 and db == 3:
        for nm in ("boost_beta3", "boost", "boostCM_of_beta3", "boostCM_of"):
            t[nm + "_3"] = ("{V}." + nm + "({W})", 4)
    return t


CHAIN = {2: ["p:x", "p:rho", "p:phi", "unit", "c:to_rhophi", "op_neg"],
         3: ["p:z", "p:eta", "p:mag", "p:theta", "unit", "c:to_rhophieta", "rotateX", "to_Vector2D"],
         4: ["p:t", "p:tau", "p:beta", "p:rapidity", "c:to_xyzt", "c:to_rhophietatau", "to_beta3", "to_Vector3D", "boostZ_beta", "unit"]}


def reduce_candidates(cell, case):
    if len(case["prog"]) > 1:
        for st_ in case["prog"]:
            yield {**case, "prog": [st_]}


def cells(tier):
    out = []
    parts_u = 2 if tier == "quick" else 10
    for d in (2, 3, 4):
        for sa in R.SYSTEMS[d]:
            for fa in "gm":
                for k in range(parts_u):
                    out.append({"id": f"u|{d}{R.sysname(sa)}|{fa}|{k}", "group": "unary", "da": d, "sa": R.sysname(sa), "fa": fa,
                                "db": None, "sb": None, "fb": None, "part": k})
    pairs = []
    for d in (2, 3, 4):
        for i, sa in enumerate(R.SYSTEMS[d]):
            for j, sb in enumerate(R.SYSTEMS[d]):
                if tier == "thorough" or d < 4 and (i + j) % 2 == 0 or d == 4 and (i * 5 + j) % 7 == 0:
                    pairs.append((d, sa, d, sb))
    for i, sa in enumerate(R.SYSTEMS[4]):
        for j, sb in enumerate(R.SYSTEMS[3]):
            if tier == "thorough" or (i + 2 * j) % 5 == 0:
                pairs.append((4, sa, 3, sb))
    for i, sa in enumerate(R.SYSTEMS[3]):
        for j, sb in enumerate(R.SYSTEMS[4]):
            if tier == "thorough" or (i + j) % 9 == 0:
                pairs.append((3, sa, 4, sb))
    for (da, sa, db, sb) in pairs:
        h = zlib.crc32(f"{da}{sa}{db}{sb}".encode())
        for k in range(1 if tier == "quick" else 3):
            fl = "gm"[(h + k) % 2] + "gm"[((h >> 3) + k) % 2]
            out.append({"id": f"b|{da}{R.sysname(sa)}|{db}{R.sysname(sb)}|{fl}|{k}", "group": "binary", "da": da, "sa": R.sysname(sa),
                        "fa": fl[0], "db": db, "sb": R.sysname(sb), "fb": fl[1], "part": k})
    for d in (2, 3, 4):
        for sa in R.SYSTEMS[d]:
            for fa in "gm":
                if tier == "quick" and (zlib.crc32(f"{sa}{fa}".encode()) % 3):
                    continue
                out.append({"id": f"ak|{d}{R.sysname(sa)}|{fa}", "group": "awkward", "da": d, "sa": R.sysname(sa), "fa": fa, "db": None,
                            "sb": None, "fb": None, "part": 0})
    out.append({"id": "construct|obj", "group": "construct", "da": 4, "sa": "xy_z_t", "fa": "g", "db": None, "sb": None, "fb": None, "part": 0})
    return out


def examples(cell, tier):
    return 1 if tier == "quick" else 2


def _pool(cell):
    d, mom = cell["da"], cell["fa"] == "m"
    if cell["group"] == "binary":
        return sorted(binary_templates(cell["da"], cell["db"]))
    return sorted(unary_templates(d, mom))


def strategy(cell, tier):
    pool = _pool(cell)
    if cell["group"] in ("awkward", "construct"):
        pool = ["p:" + p for p in props_for(cell["da"], cell["fa"] == "m")] + ["unit", "scale", "rotateZ"]
    if tier == "thorough" and cell["group"] in ("unary", "binary"):
        # deterministic coverage: part k takes every len/parts-th operation, the rest is drawn
        n = max(1, len(pool) // 8)
        fixed = pool[cell["part"]::max(1, (len(pool) + 7) // 8)][:8]
        first = st.sampled_from(pool)
    else:
        fixed = []
        first = st.sampled_from(pool)
    stmt = st.tuples(first, st.one_of(st.none(), st.integers(0, 20)), st.one_of(st.none(), st.none(), st.integers(0, 20)))
    nstmt = 8 if cell["group"] != "construct" else 4
    # the second operand is independent, identical, or equal up to a relative / absolute offset (comparisons and closeness
    # tests are only informative for related pairs)
    # (every third first operand is space-like: the sign conventions of tau / abs / ** live in separate compiled overloads)
    one = st.fixed_dictionaries({"a": gen.vec(("moderate", "moderate", "spacelike")), "b": gen.vec(("moderate",)), "beta3": gen.beta3(moderate=True),
                                 "rel": st.sampled_from(("independent", "independent", "independent", "equal", "near_rel", "near_abs")),
                                 "delta": st.sampled_from((1e-10, 1e-7, 3e-5, 2e-3, 0.03))})
    sc = st.fixed_dictionaries({
        "s_angle": st.floats(-3.0, 3.0), "s_factor": gen.factor().filter(lambda f: abs(f) > 0.05), "s_beta": gen.moderate_beta(),
        "s_gamma": gen.moderate_gamma(), "s_tolerance": st.sampled_from((0.0, 1e-5, 1e-3, 0.05)), "s_phi": st.floats(-3.0, 3.0),
        "s_theta": st.floats(-3.0, 3.0), "s_psi": st.floats(-3.0, 3.0), "q": gen.quaternion(), "m2": gen.matrix(2), "m3": gen.matrix(3),
        "m4": gen.matrix(4), "order": st.sampled_from(gen.EULER_ORDERS),
        "s_rtol": st.sampled_from((0.0, 1e-9, 1e-6, 1e-3, 0.05)), "s_atol": st.sampled_from((0.0, 1e-9, 1e-6, 1e-3, 0.05))})
    return st.fixed_dictionaries({"prog": st.lists(stmt, min_size=nstmt, max_size=nstmt).map(lambda l: [[f, None, None] for f in fixed] + [list(x) for x in l][len(fixed):]),
                                  "el": st.lists(one, min_size=6, max_size=6), "sc": sc})


def _expr(cell, stmt, order):
    """source text of one statement's expression, and (is_vector, dim)"""
    name, c1, c2 = stmt
    d, mom = cell["da"], cell["fa"] == "m"
    if cell["group"] == "binary":
        tmpl, rd = binary_templates(cell["da"], cell["db"])[name]
        res_mom = mom or cell["fb"] == "m"
    else:
        tmpl, rd = unary_templates(d, mom)[name]
        res_mom = mom
    src = tmpl.replace("{V}", "v1").replace("{W}", "v2").replace("{ORDER}", order)
    for c in (c1, c2):
        if c is None or rd is None:
            break
        cand = CHAIN[rd]
        cn = cand[c % len(cand)]
        ut = unary_templates(rd, False)
        tmpl2, rd2 = ut[cn]
        src = tmpl2.replace("{V}", "(" + src + ")").replace("{ORDER}", order)
        rd = rd2
    return src, rd


PARAMS = "s_angle, s_factor, s_beta, s_gamma, s_tolerance, s_phi, s_theta, s_psi, q0, q1, q2, q3, m2, m3, m4, s_rtol, s_atol"


def _build_function(cell, exprs, two):
    lines = ["def f(v1, " + ("v2, " if two else "") + PARAMS + "):"]
    for i, e in enumerate(exprs):
        lines.append(f"    r{i} = {e}")
    lines.append("    return (" + ", ".join(f"r{i}" for i in range(len(exprs))) + ("," if len(exprs) == 1 else "") + ")")
    return "\n".join(lines)


def _compile(src):
    import numba
    import vector  # noqa: F401

    ns = {"numpy": numpy, "vector": vector}
    exec(src, ns)  # noqa: S102 - generated program under test
    return numba.njit(ns["f"])


def _typed(m):
    import numba

    d = numba.typed.Dict()
    for k, v in m.items():
        d[k] = float(v)
    return d


def _same(ctx, cell, what, a, b, variant, margin_ok=True):
    """compare compiled (a) and interpreted (b) results; -> error text or None"""
    import vector

    isvec = lambda x: isinstance(x, vector.backends.object.VectorObject)  # noqa: E731
    if isinstance(b, complex):
        # the interpreter left the reals (Python's float ** fractional power of a negative norm): outside every backend's
        # common domain - the NumPy and compiled backends give NaN there
        ctx.exclude("interpreter_result_complex")
        return None
    if isvec(a) != isvec(b):
        return f"compiled gives {type(a).__name__}, interpreter gives {type(b).__name__}"
    if isvec(a):
        if type(a) is not type(b):
            return (f"class:{type(a).__name__}/{type(b).__name__}", f"compiled gives {type(a).__name__}, interpreter gives {type(b).__name__}")
        if obs.system_of(a) != obs.system_of(b):
            return f"compiled result stored as {obs.system_of(a)}, interpreter {obs.system_of(b)}"
        sa_, sb_ = obs.stored(a), obs.stored(b)
        sc = R.scale_of(sa_, sb_)
        for x, y in zip(sa_, sb_):
            if not (opcheck.close(x, y, TOL, sc) or R.angle_close(x, y, TOL * sc)):
                # the angles of a result that is (numerically) at rest or on an axis are noise: the same vector in Cartesian
                # components is the same result
                try:
                    ca, cb = R.to_cartesian(obs.system_of(a), sa_), R.to_cartesian(obs.system_of(b), sb_)
                    if all(obs.finite(v) for v in ca + cb) and opcheck.vec_close(ca, cb, TOL, R.scale_of(ca, cb)):
                        return None
                except Exception:  # noqa: BLE001
                    pass
                return f"compiled {opcheck.fmt(sa_)} != interpreted {opcheck.fmt(sb_)}"
        return None
    if isinstance(b, (bool, numpy.bool_)) or isinstance(a, (bool, numpy.bool_)):
        if bool(a) != bool(b):
            return ("bool", f"compiled {a} != interpreted {b}")
        return None
    try:
        if isinstance(a, float) and isinstance(b, (float, numpy.floating)) and a != a and b != b:
            return None  # NaN on both sides (a quantity undefined for this operand, e.g. gamma of a space-like vector)
        if "deltaangle" in str(what):
            # acos is ill-conditioned at +-1: nearly (anti)parallel operands agree in the cosine
            import math

            if opcheck.close(math.cos(float(a)), math.cos(float(b)), TOL, 1):
                return None
        if not opcheck.close(a, b, TOL, R.scale_of(a, b)):
            return f"compiled {a!r} != interpreted {b!r}"
    except Exception:  # noqa: BLE001
        if a != b:
            return f"compiled {a!r} != interpreted {b!r}"
    return None


def check_case(cell, case, ctx):
    if cell["group"] == "awkward":
        _check_awkward(cell, case, ctx)
    elif cell["group"] == "construct":
        _check_construct(cell, case, ctx)
    else:
        _check_program(cell, case, ctx)
    ctx.evaluations -= 1


COMPARISONS = ("equal", "not_equal", "isclose", "isclose_tol", "isclose_kw", "op_eq", "op_ne", "is_parallel", "is_antiparallel",
               "is_perpendicular")


def _operands(cell, el, related=False):
    sa = opcheck.parse_system(cell["sa"])
    ra = lattice.rows_for(sa, [el["a"]["c"]], cell["da"])
    if ra is None:
        return None
    v1 = mpbackend.make(sa, ra[0], cell["fa"] == "m", False)
    v2 = None
    if cell["db"]:
        sb = opcheck.parse_system(cell["sb"])
        c = el["b"]["c"] if cell["db"] != 3 else [*el["beta3"], 0.0]
        if related and cell["db"] == cell["da"] and el.get("rel") in ("equal", "near_rel", "near_abs"):
            a_ = [x * el.get("mag", 1.0) for x in el["a"]["c"]]
            dl = el.get("delta", 0.0)
            c = list(a_) if el["rel"] == "equal" else ([x * (1 + dl) for x in a_] if el["rel"] == "near_rel" else [x + dl * el.get("mag", 1.0) for x in a_])
            ra = lattice.rows_for(sa, [a_], cell["da"])
            if ra is None:
                return None
            v1 = mpbackend.make(sa, ra[0], cell["fa"] == "m", False)
        rb = lattice.rows_for(sb, [c], cell["db"])
        if rb is None:
            return None
        v2 = mpbackend.make(sb, rb[0], cell["fb"] == "m", False)
    return v1, v2


def _args(case, two, v1, v2):
    sc = case["sc"]
    q = sc["q"]
    args = [v1] + ([v2] if two else [])
    args += [sc["s_angle"], sc["s_factor"], sc["s_beta"], sc["s_gamma"], sc["s_tolerance"], sc["s_phi"], sc["s_theta"], sc["s_psi"],
             q[0], q[1], q[2], q[3], _typed(sc["m2"]), _typed(sc["m3"]), _typed(sc["m4"]), sc["s_rtol"], sc["s_atol"]]
    return args


def _check_program(cell, case, ctx):
    import numba

    two = cell["group"] == "binary"
    order = case["sc"]["order"]
    variant = f"{cell['da']}{cell['sa']}/{cell['fa']}" + (f"+{cell['db']}{cell['sb']}/{cell['fb']}" if two else "")
    stmts = [s for s in case["prog"]]
    exprs, keep = [], []
    ops0 = _operands(cell, case["el"][0])
    if ops0 is None:
        ctx.exclude("operand_not_representable")
        return
    # drop statements the interpreter itself rejects for these operands (not part of the supported programs)
    import vector

    for s in stmts:
        e, rd = _expr(cell, s, order)
        try:
            ns = {"numpy": numpy, "vector": vector}
            exec("def g(v1, " + ("v2, " if two else "") + PARAMS + "):\n    return " + e, ns)  # noqa: S102
            with numpy.errstate(all="ignore"):
                ns["g"](*_args(case, two, *ops0))
        except ZeroDivisionError:
            continue
        except Exception as ex:  # noqa: BLE001
            ctx.exclude("interpreter_rejects:" + type(ex).__name__)
            continue
        exprs.append(e)
        keep.append(s)
    if not exprs:
        return

    def fail(kind, msg, op):
        ctx.fail(kind, f"[{variant}] {msg}", op=op, variant=variant, backend="numba")

    src = _build_function(cell, exprs, two)
    compiled = {}

    def try_compile(source):
        """-> (function | None, error text); only typing/lowering errors count as 'does not compile'"""
        fn = _compile(source)
        try:
            with numpy.errstate(all="ignore"):
                fn(*_args(case, two, *ops0))
        except ZeroDivisionError:
            pass  # compiled code raises where numpy returns inf/nan: singular operands, handled per element below
        except numba.core.errors.NumbaError as ex:
            return None, type(ex).__name__ + ":" + str(ex)[:160].replace("\n", " ")
        except Exception as ex:  # noqa: BLE001 - a run-time error of the compiled code is compared per element below
            pass
        return fn, None

    f, err = try_compile(src)
    if f is not None:
        for i in range(len(exprs)):
            compiled[i] = (f, i)
            ctx.fact("compile", [keep[i][0], cell["da"], cell["db"], cell["sa"], cell["sb"], "ok"])
    else:
        # typing or lowering failure of the whole program: find the statements responsible
        for i, e in enumerate(exprs):
            fi, erri = try_compile(_build_function(cell, [e], two))
            if fi is not None:
                compiled[i] = (fi, 0)
                ctx.fact("compile", [keep[i][0], cell["da"], cell["db"], cell["sa"], cell["sb"], "ok"])
            else:
                ctx.fact("compile", [keep[i][0], cell["da"], cell["db"], cell["sa"], cell["sb"], "fail:" + erri + " :: " + e])
    runs = [(el, False) for el in case["el"]]
    if two and cell["db"] == cell["da"]:
        # comparison statements are also evaluated on related pairs (identical, or equal up to a relative / absolute offset);
        # the other statements are not - differences and their units are ill-conditioned there
        # (a small grid per program: relation x offset x overall magnitude - the relative and the absolute tolerance only
        # play different roles for components far from 1)
        if any(keep[i][0] in COMPARISONS and keep[i][1] is None for i in compiled):
            for el in case["el"][:2]:
                for rel in ("equal", "near_rel", "near_abs"):
                    for dl in ((0.0,) if rel == "equal" else (1e-10, 1e-7, 3e-5, 2e-3, 0.03)):
                        for mag in (1e-3, 1.0, 1e3):
                            runs.append(({**el, "rel": rel, "delta": dl, "mag": mag}, True))
    for el, related in runs:
        ops = _operands(cell, el, related)
        if ops is None:
            continue
        args = _args(case, two, *ops)
        cache = {}
        for i, (fn, pos) in compiled.items():
            if related and not (keep[i][0] in COMPARISONS and keep[i][1] is None):
                continue
            ctx.evaluation()
            try:
                if id(fn) not in cache:
                    with numpy.errstate(all="ignore"):
                        cache[id(fn)] = (fn(*args), fn.py_func(*args))
                got, want = cache[id(fn)]
            except ZeroDivisionError:
                continue
            except Exception as ex:  # noqa: BLE001
                # which side raised?
                try:
                    with numpy.errstate(all="ignore"):
                        fn.py_func(*args)
                    side = "compiled"
                except Exception:  # noqa: BLE001
                    side = "interpreter"
                if side == "compiled":
                    fail("compiled_raises", f"`{exprs[i]}` raised {type(ex).__name__} when compiled but not when interpreted: {ex!s:.200}", keep[i][0])
                    return
                continue
            a, b = got[pos], want[pos]
            err = _same(ctx, cell, exprs[i], a, b, variant)
            if err is not None:
                kind = "value"
                if isinstance(err, tuple):
                    kind, err = err
                if kind == "bool":
                    # a decision within rounding of its threshold may legitimately differ: the interpreter's own decision must be
                    # stable under 1e-9 relative perturbations of the second operand and of the tolerances before a mismatch counts
                    stable = True
                    if two and keep[i][0] in ("equal", "not_equal", "op_eq", "op_ne"):
                        # exact comparison of the same vector stored in two systems (or offset by less than rounding) is decided
                        # by the last bit of a conversion: not a threshold either side has to reproduce
                        c1_, c2_ = obs.cart_of(ops[0]), obs.cart_of(ops[1])
                        same_stored = obs.system_of(ops[0]) == obs.system_of(ops[1]) and tuple(obs.stored(ops[0])) == tuple(obs.stored(ops[1]))
                        if not same_stored and opcheck.vec_close(c1_, c2_, mpf("1e-12"), R.scale_of(c1_, c2_)):
                            stable = False
                    if two and keep[i][0].startswith("isclose"):
                        # the same vector stored in two systems (offset below rounding) against tolerances below rounding: decided
                        # by the last bit of a conversion
                        c1_, c2_ = obs.cart_of(ops[0]), obs.cart_of(ops[1])
                        sc_ = R.scale_of(c1_, c2_)
                        if keep[i][0] == "isclose":
                            tol_eff = mpf("1e-8") + mpf("1e-5") * sc_
                        else:
                            tol_eff = mpf(case["sc"]["s_atol"]) + mpf(case["sc"]["s_rtol"]) * sc_
                        same_stored = obs.system_of(ops[0]) == obs.system_of(ops[1]) and tuple(obs.stored(ops[0])) == tuple(obs.stored(ops[1]))
                        if not same_stored and opcheck.vec_close(c1_, c2_, mpf("1e-12"), sc_) and tol_eff < mpf("1e-11") * sc_:
                            stable = False
                    if keep[i][0] in catalog.OPS and keep[i][1] is None:
                        # distance of the exact decision value from its threshold (zero-width for tolerance 0)
                        try:
                            m_ = catalog.margin(catalog.OPS[keep[i][0]], obs.cart_of(ops[0]), obs.cart_of(ops[1]) if two else None,
                                                {"tolerance": mpf(case["sc"]["s_tolerance"])})
                            if m_ is not None and m_ < mpf("1e-9"):
                                stable = False
                        except Exception:  # noqa: BLE001
                            stable = False
                    for eps in (1e-9, -1e-9):
                        try:
                            pert = list(args)
                            if two:
                                o2 = ops[1]
                                pert[1] = mpbackend.make(obs.system_of(o2), tuple(float(x) * (1 + eps) if k_ == 0 else float(x) for k_, x in enumerate(obs.stored(o2))),
                                                         obs.is_momentum(o2), False)
                            base = 1 + (1 if two else 0)
                            names_ = [n.strip() for n in PARAMS.split(",")]
                            for nm_ in ("s_tolerance", "s_rtol", "s_atol"):
                                j_ = base + names_.index(nm_)
                                pert[j_] = pert[j_] * (1 + 1000 * eps)
                            with numpy.errstate(all="ignore"):
                                w2 = fn.py_func(*pert)[pos]
                            if bool(w2) != bool(b):
                                stable = False
                        except Exception:  # noqa: BLE001
                            stable = False
                    if not stable:
                        ctx.exclude("boolean_at_threshold")
                        continue
                    kind = "value"
                fail(kind, f"`{exprs[i]}`: {err}; operands v1={ops[0]!r}" + (f" v2={ops[1]!r}" if two else ""), keep[i][0])
                continue  # only reached for a recorded known finding
            nontrivial = cell["sa"] not in ("xy", "xy_z", "xy_z_t") or cell["fa"] == "m" or keep[i][1] is not None
            if nontrivial:
                ctx.nontrivial(key=[cell["id"], exprs[i], el], sample={"statement": exprs[i], "v1": repr(ops[0]), "v2": repr(ops[1]) if two else None})


def _check_awkward(cell, case, ctx):
    import awkward as ak
    import numba
    import vector

    from vcheck import build

    d = cell["da"]
    sa = opcheck.parse_system(cell["sa"])
    mom = cell["fa"] == "m"
    variant = f"awkward|{d}{cell['sa']}/{cell['fa']}"
    rows = lattice.rows_for(sa, [e["a"]["c"] for e in case["el"]], d)
    if rows is None:
        ctx.exclude("operand_not_representable")
        return
    # field spellings and redundant fields as users build them with ak.zip(..., with_name=...): momentum names, a
    # non-coordinate field, and (4D) a second temporal field of the other kind, which both the interpreter and the compiled
    # typer have to rank the same way
    import zlib

    h = zlib.crc32(("awk" + cell["id"]).encode())
    extra_f = {"charge": numpy.array([1, -1, 0, 2, -2, 1])} if (h >> 2) % 2 else {}
    if d == 4 and (h >> 3) % 2:
        other = (("tau", "mass", "M", "m") if sa[2] == "t" else ("t", "E", "e", "energy"))[(h >> 4) % 4]
        if not mom:
            other = "tau" if sa[2] == "t" else "t"
        extra_f[other] = numpy.array([20.5, 21.25, 22.0, 23.5, 24.75, 25.0])
    arr = ak.unflatten(build.ak_flat(sa, rows, mom, "momentum" if (mom and h % 2) else "generic", extra_f or None, (h >> 6) % 3), [2, 0, 3, 1])
    exprs = []
    for s in case["prog"]:
        cellu = dict(cell, group="unary")
        e, rd = _expr(cellu, [s[0], s[1], None], case["sc"]["order"])
        if rd is not None:
            cand = CHAIN[rd]
            e = "(" + e + ")." + cand[0][2:] if cand[0].startswith("p:") else e
            e, rd = e, None
        exprs.append(e.replace("v1", "v"))
    body = ["def f(arr, out, " + PARAMS + "):", "    k = 0", "    for sub in arr:", "        for v in sub:"]
    for i, e in enumerate(exprs):
        body.append(f"            out[k, {i}] = {e}")
    body += ["            k += 1", "    return out"]
    src = "\n".join(body)
    sc = case["sc"]
    q = sc["q"]
    extra = [sc["s_angle"], sc["s_factor"], sc["s_beta"], sc["s_gamma"], sc["s_tolerance"], sc["s_phi"], sc["s_theta"], sc["s_psi"],
             q[0], q[1], q[2], q[3], _typed(sc["m2"]), _typed(sc["m3"]), _typed(sc["m4"]), sc["s_rtol"], sc["s_atol"]]
    ns = {"numpy": numpy, "vector": vector}
    exec(src, ns)  # noqa: S102
    try:
        with numpy.errstate(all="ignore"):
            want = ns["f"](arr, numpy.zeros((6, len(exprs))), *extra)
    except Exception as ex:  # noqa: BLE001
        ctx.exclude("interpreter_rejects:" + type(ex).__name__)
        return
    try:
        fj = numba.njit(ns["f"])
        with numpy.errstate(all="ignore"):
            got = fj(arr, numpy.zeros((6, len(exprs))), *extra)
    except Exception as ex:  # noqa: BLE001
        ctx.fail("compile", f"[{variant}] iterating an Awkward array of vectors failed to compile/run: {type(ex).__name__}: {ex!s:.300}\n{src}",
                 op="awkward_loop", variant=variant, backend="numba-awkward")
        return
    for k in range(6):
        for i, e in enumerate(exprs):
            ctx.evaluation()
            x, y = got[k, i], want[k, i]
            if not (opcheck.close(x, y, TOL, R.scale_of(x, y)) or (math.isnan(x) and math.isnan(y))):
                ctx.fail("value", f"[{variant}] `{e}` for element {k} (stored {rows[k]}): compiled {x!r} != interpreted {y!r}", op=e.split("(")[0][:30],
                         variant=variant, backend="numba-awkward")
                return
            ctx.nontrivial(key=[cell["id"], e, rows[k]], sample={"statement": e, "stored": rows[k]})


def _check_construct(cell, case, ctx):
    """vector.obj(...) inside compiled functions, for documented name sets in every spelling"""
    import numba
    import vector

    sets = []
    for d in (2, 3, 4):
        for s in R.SYSTEMS[d]:
            names = list(R.coord_names(s))
            sets.append(names)
            mn = [{"x": "px", "y": "py", "rho": "pt", "z": "pz", "t": "E", "tau": "mass"}.get(n, n) for n in names]
            if mn != names:
                sets.append(mn)
            if d == 4:
                sets.append([{"t": "energy", "tau": "M"}.get(n, n) for n in names])
    vals = [abs(case["sc"]["s_factor"]) + 0.25, 0.5 + abs(case["sc"]["s_angle"]) / 4, 0.75, 7.5]
    for names in sets:
        ctx.evaluation()
        args = ", ".join(f"a{i}" for i in range(len(names)))
        kw = ", ".join(f"{n}=a{i}" for i, n in enumerate(names))
        src = f"def f({args}):\n    v = vector.obj({kw})\n    return v, v.rho, v.scale(2.0)"
        ns = {"vector": vector}
        exec(src, ns)  # noqa: S102
        vv = vals[: len(names)]
        try:
            want = ns["f"](*vv)
        except Exception:  # noqa: BLE001
            continue
        try:
            got = numba.njit(ns["f"])(*vv)
            ctx.fact("compile", ["obj:" + "+".join(names), len(names), None, "-", None, "ok"])
        except Exception as ex:  # noqa: BLE001
            ctx.fact("compile", ["obj:" + "+".join(names), len(names), None, "-", None, "fail:" + type(ex).__name__ + ":" + str(ex)[:120].replace("\n", " ")])
            ctx.fail("compile", f"vector.obj({kw}) does not compile: {type(ex).__name__}: {ex!s:.200}", op="obj", variant="+".join(names), backend="numba")
            return
        for a, b in zip(got, want):
            err = _same(ctx, cell, "obj", a, b, "+".join(names))
            if err is not None:
                if isinstance(err, tuple):
                    err = err[1]
                ctx.fail("value", f"vector.obj({kw}) compiled vs interpreted: {err}", op="obj", variant="+".join(names), backend="numba")
                return
        ctx.nontrivial(key=names, sample={"construct": kw})


def finalize(tier, results):
    """a statement kind that compiles for some signatures of a dimension but not for others is a violation"""
    table = {}
    for r in results:
        for name, da, db, sa, sb, status in r.get("facts", {}).get("compile", []):
            table.setdefault((name, da, db), {}).setdefault("ok" if status == "ok" else "fail", []).append((sa, sb, status))
    out = []
    for (name, da, db), st_ in sorted(table.items(), key=lambda kv: str(kv[0])):
        if "fail" in st_ and "ok" in st_:
            sa, sb, status = st_["fail"][0]
            v = Violation("partial_support", f"`{name}` ({da}D" + (f", {db}D" if db else "") + f") compiles for {len(st_['ok'])} signature(s) "
                          f"(e.g. {st_['ok'][0][:2]}) but not for {len(st_['fail'])} (e.g. {sa}, {sb}): {status[:300]}", op=name,
                          variant=f"{da}{sa}" + (f"+{db}{sb}" if db else ""), backend="numba")
            v.cell = {"id": f"finalize|{name}|{da}|{db}"}
            v.case = {"failing": st_["fail"][:5], "compiling": st_["ok"][:5]}
            from vcheck import findings

            if findings.match(PID, v) is None:
                out.append(v)
    return out


def extra_coverage(tier, results):
    unsupported = {}
    n_ok = 0
    for r in results:
        for name, da, db, sa, sb, status in r.get("facts", {}).get("compile", []):
            if status == "ok":
                n_ok += 1
            else:
                unsupported.setdefault(f"{name}|{da}|{db}", 0)
                unsupported[f"{name}|{da}|{db}"] += 1
    return {"statements_compiled": n_ok, "statements_failing_to_compile": unsupported}


def describe(cell, case):
    order = case["sc"]["order"]
    try:
        return {"program": [_expr(cell if cell["group"] in ("unary", "binary") else dict(cell, group="unary"), s, order)[0] for s in case["prog"]],
                "first_operands": case["el"][0]}
    except Exception:  # noqa: BLE001
        return {"prog": case["prog"]}
