"""C19 - NumPy vector arrays behave as arrays of vectors (plain-ndarray indexing is the model)."""

from __future__ import annotations

import copy
import math
import pickle

import numpy
from hypothesis import strategies as st
from mpmath import mpf

from vcheck import build, gen, mpbackend, obs, opcheck, refmodel as R

import vector  # noqa: E402
from vector._methods import Momentum  # noqa: E402

PID = "C19"
SHRINK = False
RULE = (
    "Cells = stored system (all 20) x flavor x rank of the array (1, 2, 3). A case = 24 generated element vectors, a shape of "
    "the cell's rank (incl. length-1 and length-0 axes) and a list of generated index expressions: full integer indices (incl. "
    "negative), partial integer indices, slices with positive/negative steps, Ellipsis, boolean masks, integer fancy indices, "
    "reshape, transpose, view, copy/flatten/ravel, coordinate names and momentum synonyms. Model = the same expression applied "
    "to the plain structured ndarray. Oracles: full index -> vector object of the element's stored coordinates (exact), same "
    "coordinate classes and flavor; array-valued results keep array class, field names and flavor and equal the model byte for "
    "byte; name index == stored column and shares memory; object.__array__/numpy.asanyarray -> vector array of the same flavor "
    "and system holding the object's coordinates, numpy.asarray -> plain structured array with the same fields; "
    "pickle/deepcopy/copy round-trip class, dtype, bytes and still answer accessors. Non-trivial = rank >= 2 or non-Cartesian "
    "or momentum; distinct by (cell, input)."
)
ASSUMPTIONS = ["plain numpy.ndarray indexing semantics are the reference model"]

GEN_TO_MOM = {"x": "px", "y": "py", "rho": "pt", "z": "pz", "t": ("E", "e", "energy"), "tau": ("mass", "M", "m")}
OBJ_GEN = {2: "VectorObject2D", 3: "VectorObject3D", 4: "VectorObject4D"}
OBJ_MOM = {2: "MomentumObject2D", 3: "MomentumObject3D", 4: "MomentumObject4D"}
SHAPES = {1: [(24,), (7,), (1,), (0,)], 2: [(4, 6), (6, 4), (24, 1), (1, 5), (3, 0), (2, 12)], 3: [(2, 3, 4), (4, 3, 2), (2, 1, 5), (3, 2, 0)]}


def reduce_candidates(cell, case):
    if len(case["idx"]) > 1:
        for ix in case["idx"]:
            yield {**case, "idx": [ix]}


def cells(tier):
    out = []
    for d in (2, 3, 4):
        for sa in R.SYSTEMS[d]:
            for fl in "gm":
                for rank in (1, 2, 3):
                    out.append({"id": f"{d}{R.sysname(sa)}|{fl}|r{rank}", "d": d, "sa": R.sysname(sa), "fa": fl, "rank": rank})
    return out


def examples(cell, tier):
    return 2 if tier == "quick" else 25


def _axis_index():
    return st.one_of(
        st.integers(-30, 30).map(lambda i: ["int", i]),
        st.tuples(st.one_of(st.none(), st.integers(-8, 8)), st.one_of(st.none(), st.integers(-8, 30)),
                  st.sampled_from((None, 1, 2, -1, -2, 3))).map(lambda t: ["slice", *t]),
    )


def strategy(cell, tier):
    rank = cell["rank"]
    one = st.one_of(
        st.lists(_axis_index(), min_size=1, max_size=rank).map(lambda l: ["tuple", l]),
        st.lists(st.integers(-30, 30), min_size=rank, max_size=rank).map(lambda l: ["full", l]),
        st.lists(st.booleans(), min_size=24, max_size=24).map(lambda m: ["mask", m]),
        st.lists(st.integers(-6, 6), min_size=0, max_size=5).map(lambda l: ["fancy", l]),
        st.sampled_from([["ellipsis"], ["T"], ["view"], ["copy"], ["flatten"], ["ravel"], ["reshape_flat"], ["reshape_rev"],
                         ["name"], ["synonym"], ["pickle"], ["deepcopy"], ["newaxis"], ["ellipsis_last"], ["empty_tuple"],
                         ["empty_list"], ["list_fancy"], ["tuple_of_lists"], ["pickle_T"], ["pickle_slice"]]),
    )
    return st.fixed_dictionaries({
        "elems": st.lists(gen.vec(("moderate", "octant")), min_size=24, max_size=24),
        "shape": st.sampled_from(range(len(SHAPES[rank]))),
        # order of the fields in the structured dtype (any permutation is a valid array) and an extra non-coordinate field
        "perm": st.integers(0, 23), "extra": st.sampled_from((None, None, "first", "last", "middle")),
        "alt": st.integers(0, 2), "layout": st.sampled_from((None, None, "aligned", "offsets")),
        "idx": st.lists(one, min_size=6, max_size=10),
    })


def _clip_index(i, n):
    """map a generated integer into the valid index range [-n, n) (None if the axis is empty)"""
    if n == 0:
        return None
    return ((i + n) % (2 * n)) - n


def _realise(ix, shape):
    """generated expression -> (python index object | None when not applicable)"""
    kind = ix[0]
    if kind == "full":
        out = []
        for i, n in zip(ix[1], shape):
            c = _clip_index(i, n)
            if c is None:
                return None
            out.append(c)
        return tuple(out)
    if kind == "tuple":
        out = []
        for item, n in zip(ix[1], shape):
            if item[0] == "int":
                c = _clip_index(item[1], n)
                if c is None:
                    return None
                out.append(c)
            else:
                out.append(slice(item[1], item[2], item[3]))
        return tuple(out)
    if kind == "mask":
        return numpy.array(ix[1][: shape[0]], dtype=bool)
    if kind == "fancy":
        if shape[0] == 0:
            return None
        return numpy.array([_clip_index(i, shape[0]) for i in ix[1]], dtype=numpy.int64)
    return None


def check_case(cell, case, ctx):
    d = cell["d"]
    sa = opcheck.parse_system(cell["sa"])
    mom = cell["fa"] == "m"
    shape = SHAPES[cell["rank"]][case["shape"]]
    n = int(numpy.prod(shape))
    variant = f"{d}{cell['sa']}|{'momentum' if mom else 'generic'}|{shape}"
    rows = []
    for e in case["elems"][: max(n, 1)]:
        c = tuple(mpf(x) for x in e["c"][:d])
        if not R.representable(sa, c):
            ctx.exclude("operand_not_representable")
            return
        rows.append(tuple(float(x) for x in R.from_cartesian(sa, c)))
    # the structured array is assembled here, independently of the class under test: field names in the spelling under test
    # (momentum arrays: px py pt pz and one of E/e/energy, mass/M/m), any field order, an optional non-coordinate field, and
    # a memory layout that is packed, aligned with padding, or a multi-field view of a wider record (explicit offsets)
    import itertools

    names = R.coord_names(sa)
    spelled = build.names_for(sa, "momentum" if mom else "generic", case.get("alt", 0))
    order = list(list(itertools.permutations(range(len(names))))[case.get("perm", 0) % math.factorial(len(names))])
    fields = [(spelled[i], numpy.float64) for i in order]
    if case.get("extra"):
        pos = {"first": 0, "last": len(fields), "middle": len(fields) // 2}[case["extra"]]
        fields.insert(pos, ("charge", numpy.int64))
    layout = case.get("layout")
    nrow = len(rows)
    if layout == "aligned":
        raw = numpy.zeros(nrow, dtype=numpy.dtype([("flag", numpy.int8)] + fields + [("tag", numpy.int16)], align=True))
        raw["flag"], raw["tag"] = 7, 513
    elif layout == "offsets":
        wide = numpy.zeros(nrow, dtype=[("event", numpy.int64)] + fields + [("weight", numpy.float64)])
        wide["event"], wide["weight"] = numpy.arange(nrow) + 1000, 0.125
        raw = wide[[f[0] for f in fields]]
    else:
        raw = numpy.zeros(nrow, dtype=fields)
    truth = {}
    for j, nm in enumerate(names):
        col = numpy.array([r[j] for r in rows], dtype=numpy.float64)
        raw[spelled[j]] = col
        truth[nm] = col
    if case.get("extra"):
        truth["charge"] = numpy.arange(nrow) % 3 - 1
        raw["charge"] = truth["charge"]
    cls = (build.NP_MOM if mom else build.NP_GEN)[d]
    ctx.evaluation()
    try:
        base = raw.view(cls)
    except Exception as e:  # noqa: BLE001
        ctx.fail("exception", f"[{variant}] viewing a structured array {raw.dtype} as {cls.__name__} raised {type(e).__name__}: {e!s:.200}",
                 op="view", variant=f"{d}{cell['sa']}", backend="numpy")
        return
    # the view holds the stored columns (read back by geometric name) and the extra field, bit for bit
    for nm, col in truth.items():
        try:
            got = numpy.ascontiguousarray(base.view(numpy.ndarray)[nm])
        except Exception as e:  # noqa: BLE001
            ctx.fail("view_column", f"[{variant}] {raw.dtype} viewed as {cls.__name__}: field {nm!r} is not readable ({e!r})",
                     op="view", variant=f"{d}{cell['sa']}", backend="numpy")
            return
        if got.tobytes() != numpy.ascontiguousarray(col).tobytes():
            ctx.fail("view_column", f"[{variant}] layout={layout}: {raw.dtype} viewed as {cls.__name__}: field {nm!r} holds {got[:3]} "
                     f"but the column stored under {spelled[names.index(nm)] if nm in names else nm!r} is {col[:3]}",
                     op="view", variant=f"{d}{cell['sa']}", backend="numpy")
            return
    arr = (base[:n] if n else base[:0]).reshape(shape)
    plain = numpy.array(arr.view(numpy.ndarray), copy=True)
    arrcls = type(arr)
    objname = (OBJ_MOM if mom else OBJ_GEN)[d]

    def fail(kind, msg, op):
        ctx.fail(kind, f"[{variant}] {msg}", op=op, variant=f"{d}{cell['sa']}", backend="numpy")

    def same_array(got, want, what, op):
        """got: vector array; want: plain structured ndarray"""
        if type(got) is not arrcls:
            fail("class", f"{what} returned {type(got).__name__}, not {arrcls.__name__}", op)
            return False
        if got.dtype.names != plain.dtype.names:
            fail("dtype", f"{what}: field names {got.dtype.names} != {plain.dtype.names}", op)
            return False
        if got.shape != want.shape:
            fail("shape", f"{what}: shape {got.shape}, plain ndarray indexing gives {want.shape}", op)
            return False
        g = got.view(numpy.ndarray)
        for fname in plain.dtype.names:
            if g.dtype.fields[fname][0] != want.dtype.fields[fname][0] or \
                    numpy.ascontiguousarray(g[fname]).tobytes() != numpy.ascontiguousarray(want[fname]).tobytes():
                fail("value", f"{what}: field {fname!r} differs from plain ndarray indexing: {g[fname].reshape(-1)[:3]} vs "
                     f"{want[fname].reshape(-1)[:3]}", op)
                return False
        if isinstance(got, Momentum) != mom or obs.system_of(got) != sa:
            fail("class", f"{what}: flavor/system changed: {type(got).__name__} {obs.system_of(got)}", op)
            return False
        return True

    def same_object(got, void, what, op):
        if type(got).__name__ != objname:
            fail("class", f"{what} returned {type(got).__name__}, expected {objname}", op)
            return False
        if obs.system_of(got) != sa:
            fail("class", f"{what}: coordinate system {obs.system_of(got)} != {sa}", op)
            return False
        st_ = tuple(float(x) for x in obs.stored(got))
        want = tuple(float(void[nm]) for nm in names)
        if st_ != want and not all((a != a and b != b) or a == b for a, b in zip(st_, want)):
            fail("value", f"{what}: object stores {st_}, element is {want}", op)
            return False
        return True

    for ix in case["idx"]:
        ctx.evaluation()
        kind = ix[0]
        try:
            if kind in ("full", "tuple", "mask", "fancy"):
                key = _realise(ix, shape)
                if key is None:
                    ctx.exclude("index_not_applicable")
                    continue
                if kind == "mask" and len(key) != shape[0]:
                    ctx.exclude("index_not_applicable")
                    continue
                want = plain[key]
                got = arr[key]
                what = f"arr[{key!r}]" if not isinstance(key, numpy.ndarray) else f"arr[{kind} {key.tolist()}]"
                if isinstance(want, numpy.void):
                    if not same_object(got, want, what, "getitem_full"):
                        return
                else:
                    if not same_array(got, want, what, "getitem_" + kind):
                        return
            elif kind == "ellipsis":
                if not same_array(arr[...], plain[...], "arr[...]", "getitem_ellipsis"):
                    return
            elif kind == "empty_tuple":
                # the empty index expression selects the whole array
                if not same_array(arr[()], plain[()], "arr[()]", "getitem_empty"):
                    return
            elif kind == "empty_list":
                if not same_array(arr[[]], plain[[]], "arr[[]]", "getitem_empty"):
                    return
            elif kind == "list_fancy":
                if shape[0]:
                    key = [0, shape[0] - 1, 0]
                    if not same_array(arr[key], plain[key], f"arr[{key}]", "getitem_fancy"):
                        return
            elif kind == "tuple_of_lists":
                if all(shape):
                    key = tuple([0, s_ - 1] for s_ in shape)
                    if not same_array(arr[key], plain[key], f"arr[{key}]", "getitem_fancy"):
                        return
            elif kind == "ellipsis_last":
                if n and shape[-1]:
                    if not same_array(arr[..., 0], plain[..., 0], "arr[..., 0]", "getitem_ellipsis"):
                        return
            elif kind == "newaxis":
                if not same_array(arr[numpy.newaxis], plain[numpy.newaxis], "arr[newaxis]", "getitem_newaxis"):
                    return
            elif kind == "T":
                if not same_array(arr.T, plain.T, "arr.T", "transpose"):
                    return
            elif kind == "view":
                if not same_array(arr.view(arrcls), plain, "arr.view(cls)", "view"):
                    return
                v2 = plain.view(arrcls)
                if not same_array(v2, plain, "plain.view(cls)", "view"):
                    return
            elif kind == "copy":
                if not same_array(arr.copy(), plain, "arr.copy()", "copy"):
                    return
            elif kind == "flatten":
                if not same_array(arr.flatten(), plain.flatten(), "arr.flatten()", "reshape"):
                    return
            elif kind == "ravel":
                if not same_array(arr.ravel(), plain.ravel(), "arr.ravel()", "reshape"):
                    return
            elif kind == "reshape_flat":
                if not same_array(arr.reshape(-1), plain.reshape(-1), "arr.reshape(-1)", "reshape"):
                    return
            elif kind == "reshape_rev":
                if not same_array(arr.reshape(shape[::-1]), plain.reshape(shape[::-1]), f"arr.reshape({shape[::-1]})", "reshape"):
                    return
            elif kind in ("name", "synonym"):
                for nm in names:
                    keys = [nm]
                    if kind == "synonym" and mom and nm in GEN_TO_MOM:
                        s = GEN_TO_MOM[nm]
                        keys = list(s) if isinstance(s, tuple) else [s]
                    for key in keys:
                        col = arr[key]
                        if type(col) is not numpy.ndarray or col.shape != shape:
                            fail("column", f"arr[{key!r}] is {type(col).__name__} of shape {getattr(col, 'shape', None)}", "getitem_name")
                            return
                        if col.tobytes() != numpy.ascontiguousarray(plain[nm]).tobytes():
                            fail("column", f"arr[{key!r}] is not the stored column {nm!r}", "getitem_name")
                            return
                        if n and not numpy.shares_memory(col, arr):
                            fail("column", f"arr[{key!r}] does not share memory with the array (a copy, not the stored column)", "getitem_name")
                            return
            elif kind == "pickle_T":
                # a transposed view is Fortran-contiguous: the round trip keeps every element in its place
                if not same_array(pickle.loads(pickle.dumps(arr.T)), plain.T, "pickle round trip of arr.T", "pickle"):
                    return
                if not same_array(copy.deepcopy(arr.T), plain.T, "deepcopy of arr.T", "deepcopy"):
                    return
            elif kind == "pickle_slice":
                if shape[0] > 1:
                    if not same_array(pickle.loads(pickle.dumps(arr[::2])), plain[::2], "pickle round trip of arr[::2]", "pickle"):
                        return
            elif kind in ("pickle", "deepcopy"):
                got = pickle.loads(pickle.dumps(arr)) if kind == "pickle" else copy.deepcopy(arr)
                if not same_array(got, plain, f"{kind} round trip", kind):
                    return
                if n:
                    a1 = numpy.asarray(got.rho2).tobytes()
                    a2 = numpy.asarray(arr.rho2).tobytes()
                    if a1 != a2:
                        fail("value", f"{kind} round trip: accessors of the copy differ", kind)
                        return
                    if d >= 3 and numpy.asarray(got.z).tobytes() != numpy.asarray(arr.z).tobytes():
                        fail("value", f"{kind} round trip: accessors of the copy differ", kind)
                        return
                    if d == 4 and numpy.asarray(got.t).tobytes() != numpy.asarray(arr.t).tobytes():
                        fail("value", f"{kind} round trip: accessors of the copy differ", kind)
                        return
        except Exception as e:  # noqa: BLE001
            from vcheck.findings import Violation

            if isinstance(e, Violation):
                raise
            # plain ndarray indexing raising the same way is fine (e.g. index out of bounds can not happen by construction)
            fail("exception", f"index expression {ix} raised {type(e).__name__}: {e!s:.200}", "getitem_" + kind)
            return
    # array form of a vector object
    if n:
        ob = mpbackend.make(sa, rows[0], mom, False)
        for what, f in (("__array__()", lambda: ob.__array__()), ("numpy.asanyarray", lambda: numpy.asanyarray(ob))):
            ctx.evaluation()
            try:
                a = f()
            except Exception as e:  # noqa: BLE001
                fail("exception", f"{what} of {type(ob).__name__} raised {e!r}", "array_form")
                return
            if type(a) is not arrcls or obs.system_of(a) != sa or a.size != 1:
                fail("array_form", f"{what} of a {type(ob).__name__}{sa} is {type(a).__name__} "
                     f"{obs.system_of(a) if hasattr(a, 'azimuthal') else ''} size {getattr(a, 'size', None)}", "array_form")
                return
            vals = tuple(float(numpy.asarray(a.view(numpy.ndarray)[nm]).reshape(-1)[0]) for nm in names)
            if vals != rows[0]:
                fail("array_form", f"{what}: holds {vals}, object stores {rows[0]}", "array_form")
                return
            if a.shape == ():
                # the full index of a 0-d array is the empty tuple: it gives back the vector object
                try:
                    el = a[()]
                except Exception as e:  # noqa: BLE001
                    fail("exception", f"{what}[()] raised {type(e).__name__}: {e!s:.200}", "getitem_full")
                    return
                if not same_object(el, a.view(numpy.ndarray)[()], f"{what}[()]", "getitem_full"):
                    return
        ctx.evaluation()
        p = numpy.asarray(ob)
        if type(p) is not numpy.ndarray or p.dtype.names != names:
            fail("array_form", f"numpy.asarray(object) is {type(p).__name__} with fields {p.dtype.names}, expected plain ndarray with {names}",
                 "array_form")
            return
        if tuple(float(numpy.asarray(p[nm]).reshape(-1)[0]) for nm in names) != rows[0]:
            fail("array_form", "numpy.asarray(object) holds different values", "array_form")
            return
    if cell["rank"] >= 2 or sa != opcheck.CART[d] or mom:
        ctx.nontrivial(sample={"shape": shape, "indices": case["idx"][:3]})
    ctx.evaluations -= 1


def describe(cell, case):
    return {"shape": SHAPES[cell["rank"]][case["shape"]], "idx": case["idx"], "perm": case.get("perm"), "extra": case.get("extra"),
            "alt": case.get("alt"), "layout": case.get("layout")}
