"""C09 - boosts are Lorentz transformations with the documented relations (laws)."""

from __future__ import annotations

import zlib

import mpmath
from hypothesis import strategies as st
from mpmath import mpf

from vcheck import gen, laws, obs, opcheck, refmodel as R
from vcheck.laws import Env, Skip

PID = "C09"
SHRINK = False
RULE = (
    "Cells = law x stored system of the boosted vector (12) x stored system of the booster (6 for a velocity, 12 for a "
    "4-momentum) / boost axis x tier {mp 60-digit, f64}. Laws: Minkowski product and tau2 invariant under boost_beta3/"
    "boost_p4/boostX/Y/Z; boost(-beta) undoes boost(beta); collinear composition = relativistic velocity addition; "
    "boost_p4(p) = boost_beta3(p.to_beta3()) = boost(p); boostX/Y/Z(beta) = boost_beta3 along the axis = boostX/Y/Z(gamma=+-gamma); "
    "boost() rejects non-3D/4D boosters; v.boostCM_of_p4(v)/_beta3/boostCM_of -> (0,0,0,tau). A case is a bundle with one "
    "sub-case per stratum of the boosted vector (mp: all causal characters incl. space-like, near-light-cone, ultra-"
    "relativistic, t<0; f64: well-conditioned), boosters with |beta| up to 1-1e-6 (mp) / 0.93 (f64). mp: 1e-40*gamma^2*scale, "
    "f64: 1e-9*gamma^2*scale. Non-trivial = all velocity components non-zero and the vector not parallel to it; distinct by (cell, input)."
)
ASSUMPTIONS = [
    "results whose exact value is not representable in the returned system (tau storage with t'<0 after boosting a space-like vector) are excluded and counted",
    "float64 tier restricted to gamma < 30 and the well-conditioned stratum",
]

AXES = "XYZ"


def reduce_candidates(cell, bundle):
    if len(bundle) > 1:
        for sub in bundle:
            yield [sub]


def _h(key, seq):
    return seq[zlib.crc32(key.encode()) % len(seq)]


def cells(tier):
    out = []
    S4, S3 = R.SYSTEMS[4], R.SYSTEMS[3]

    def add(law, sv, sb, extra=""):
        for mode in ("mp", "f64"):
            out.append({"id": f"{law}|{R.sysname(sv)}|{R.sysname(sb) if sb else ''}|{extra}|{mode}", "law": law,
                        "sv": R.sysname(sv), "sb": R.sysname(sb) if sb else None, "extra": extra, "mode": mode})

    for sv in S4:
        for sb in S3:
            add("inv_beta3", sv, sb)
            add("inverse_beta3", sv, sb)
            add("cm_beta3", sv, sb)
        for sb in S4:
            add("inv_p4", sv, sb)
            add("inverse_p4", sv, sb)
            add("spelling_p4", sv, sb)
            add("cm_p4", sv, sb)
        for ax in AXES:
            add("inv_axis", sv, None, ax)
            add("compose_axis", sv, None, ax)
            for sb in (S3 if tier == "thorough" else list(dict.fromkeys([S3[0], _h(R.sysname(sv) + ax, S3)]))):
                add("spelling_axis", sv, sb, ax)
        add("dispatch", sv, None)
    # float64 accuracy of every boost spelling for every stored system of the booster (conditioning-aware budget, see
    # C02._check_accuracy): a re-derivation of gamma by cancellation in one booster signature is invisible to the laws above
    for opname, boosters in (("boost_p4", S4), ("boostCM_of_p4", S4), ("boost_beta3", S3), ("boostCM_of_beta3", S3)):
        for i, sv in enumerate(S4):
            for j, sb in enumerate(boosters):
                if tier == "quick" and not (i == 0 or (i + j) % 4 == 0):
                    continue
                out.append({"id": f"accuracy|{opname}|{R.sysname(sv)}|{R.sysname(sb)}", "law": "accuracy", "op": opname, "sv": R.sysname(sv),
                            "sb": R.sysname(sb), "extra": "", "mode": "acc", "da": 4, "db": len(sb) + 1, "sa": R.sysname(sv), "order": None})
    for ax in AXES:
        for kind in ("beta", "gamma"):
            for sv in S4:
                out.append({"id": f"accuracy|boost{ax}_{kind}|{R.sysname(sv)}|", "law": "accuracy", "op": f"boost{ax}_{kind}", "sv": R.sysname(sv),
                            "sb": None, "extra": ax, "mode": "acc", "da": 4, "db": None, "sa": R.sysname(sv), "order": None})
    return out


def examples(cell, tier):
    if tier == "quick":
        return 1 if cell["mode"] == "mp" else 2
    return 10


def strategy(cell, tier):
    if cell["law"] == "accuracy":
        from vcheck.props import c02

        return c02.strategy(cell, tier)
    f64 = cell["mode"] == "f64"
    strata = ("moderate",) * 3 if f64 else gen.REGULAR
    allb = ("moderate",) if f64 else gen.REGULAR
    fwd = ("moderate",) if f64 else gen.TIMELIKE_FWD
    bscal = gen.moderate_beta() if f64 else gen.beta()
    parts = []
    for s in strata:
        astrata = (s,)
        if cell["law"].startswith("cm_"):
            astrata = (s,) if s in fwd else ("octant",)
        parts.append(st.fixed_dictionaries({
            "a": gen.vec(astrata), "b": gen.vec(allb), "beta3": gen.beta3(moderate=f64), "p": gen.vec(fwd),
            "b1": bscal, "b2": bscal}))
    return st.tuples(*parts).map(list)


def _gamma2(b2):
    return 1 / (1 - b2)


def _beta3_g2(b):
    return _gamma2(sum(mpf(x) ** 2 for x in b))


def _p4_g2(p):
    p = [mpf(x) for x in p]
    return _gamma2((p[0] ** 2 + p[1] ** 2 + p[2] ** 2) / p[3] ** 2)


def _boost_result_ok(env, res, ref):
    env.check_representable(res, ref)


def check_sub(cell, sub, ctx):
    law = cell["law"]
    mp_ = cell["mode"] == "mp"
    sv = opcheck.parse_system(cell["sv"])
    sb = opcheck.parse_system(cell["sb"]) if cell["sb"] else None
    variant = f"{cell['sv']}|{cell['sb'] or cell['extra']}"
    env = Env(ctx, cell, mp_, law, variant)
    a, b = sub["a"]["c"], sub["b"]["c"]
    ac = tuple(mpf(x) for x in a)
    bc = tuple(mpf(x) for x in b)
    ctx.stratum(sub["a"]["stratum"])
    A = env.vec(sv, a)
    nontrivial = True

    def boost_ref_beta(v, k):
        return R.boost_beta3(v, tuple(mpf(x) for x in k))

    if law in ("inv_beta3", "inverse_beta3"):
        k = sub["beta3"]
        g2 = _beta3_g2(k)
        K = env.vec(sb, k)
        A2 = env.call("boost_beta3", lambda: A.boost_beta3(K))
        _boost_result_ok(env, A2, boost_ref_beta(ac, k))
        if law == "inv_beta3":
            sv2 = _h(cell["id"], R.SYSTEMS[4])
            B = env.vec(sv2, b)
            B2 = env.call("boost_beta3", lambda: B.boost_beta3(K))
            _boost_result_ok(env, B2, boost_ref_beta(bc, k))
            sc = R.scale_of(ac) * R.scale_of(bc)
            env.eq_num("B(a).B(b) = a.b", env.call("dot", lambda: A2.dot(B2)), env.call("dot", lambda: A.dot(B)), sc, g2 * 8)
            env.eq_num("tau2(B(a)) = tau2(a)", env.call("tau2", lambda: A2.tau2), env.call("tau2", lambda: A.tau2),
                       R.scale_of(ac) ** 2, g2 * 8)
        else:
            Kn = env.vec(sb, [-x for x in k])
            A3 = env.call("boost_beta3", lambda: A2.boost_beta3(Kn))
            env.eq_cart("boost(-beta) undoes boost(beta)", env.cart(A3), ac, R.scale_of(ac), g2 * g2 * 8)
    elif law in ("inv_p4", "inverse_p4", "spelling_p4"):
        p = sub["p"]["c"]
        pc = tuple(mpf(x) for x in p)
        g2 = _p4_g2(p)
        if g2 > 900 and not mp_:
            raise Skip("gamma_too_large_f64")
        P = env.vec(sb, p)
        A2 = env.call("boost_p4", lambda: A.boost_p4(P))
        _boost_result_ok(env, A2, R.boost_p4(ac, pc))
        if law == "inv_p4":
            sv2 = _h(cell["id"], R.SYSTEMS[4])
            B = env.vec(sv2, b)
            B2 = env.call("boost_p4", lambda: B.boost_p4(P))
            _boost_result_ok(env, B2, R.boost_p4(bc, pc))
            sc = R.scale_of(ac) * R.scale_of(bc)
            env.eq_num("B(a).B(b) = a.b", env.call("dot", lambda: A2.dot(B2)), env.call("dot", lambda: A.dot(B)), sc, g2 * 8)
            env.eq_num("tau2(B(a)) = tau2(a)", env.call("tau2", lambda: A2.tau2), env.call("tau2", lambda: A.tau2),
                       R.scale_of(ac) ** 2, g2 * 8)
        elif law == "inverse_p4":
            Pn = env.vec(sb, [-p[0], -p[1], -p[2], p[3]])
            A3 = env.call("boost_p4", lambda: A2.boost_p4(Pn))
            env.eq_cart("boost_p4(p_reversed) undoes boost_p4(p)", env.cart(A3), ac, R.scale_of(ac), g2 * g2 * 8)
        else:
            K = env.call("to_beta3", lambda: P.to_beta3())
            A4 = env.call("boost_beta3", lambda: A.boost_beta3(K))
            sc = R.scale_of(ac) * mpmath.sqrt(g2)
            env.eq_vec("boost_p4(p) = boost_beta3(p.to_beta3())", A2, A4, sc, g2 * 8)
            A5 = env.call("boost", lambda: A.boost(P))
            if obs.system_of(A5) != obs.system_of(A2) or obs.stored(A5) != obs.stored(A2):
                env.fail("law", f"boost(p4) {obs.system_of(A5)}{opcheck.fmt(obs.stored(A5))} is not boost_p4(p4) "
                         f"{obs.system_of(A2)}{opcheck.fmt(obs.stored(A2))}")
            A6 = env.call("boost", lambda: A.boost(K))
            if obs.system_of(A6) != obs.system_of(A4) or obs.stored(A6) != obs.stored(A4):
                env.fail("law", "boost(beta3) is not boost_beta3(beta3)")
    elif law in ("inv_axis", "compose_axis", "spelling_axis"):
        ax = cell["extra"]
        name = "boost" + ax
        b1, b2 = sub["b1"], sub["b2"]
        g2 = _gamma2(mpf(b1) ** 2)
        fn = lambda v, **kw: getattr(v, name)(**kw)  # noqa: E731
        A2 = env.call(name, lambda: fn(A, beta=env.num(b1)))
        _boost_result_ok(env, A2, R.boost_axis_beta(ac, ax.lower(), b1))
        if law == "inv_axis":
            sv2 = _h(cell["id"], R.SYSTEMS[4])
            B = env.vec(sv2, b)
            B2 = env.call(name, lambda: fn(B, beta=env.num(b1)))
            _boost_result_ok(env, B2, R.boost_axis_beta(bc, ax.lower(), b1))
            sc = R.scale_of(ac) * R.scale_of(bc)
            env.eq_num(f"{name}(a).{name}(b) = a.b", env.call("dot", lambda: A2.dot(B2)), env.call("dot", lambda: A.dot(B)),
                       sc, g2 * 8)
            A3 = env.call(name, lambda: fn(A2, beta=env.num(-b1)))
            env.eq_cart(f"{name}(-beta) undoes {name}(beta)", env.cart(A3), ac, R.scale_of(ac), g2 * g2 * 8)
        elif law == "compose_axis":
            g22 = _gamma2(mpf(b2) ** 2)
            A3 = env.call(name, lambda: fn(A2, beta=env.num(b2)))
            b12 = (mpf(b1) + mpf(b2)) / (1 + mpf(b1) * mpf(b2))
            _boost_result_ok(env, A3, R.boost_axis_beta(ac, ax.lower(), b12))
            A4 = env.call(name, lambda: fn(A, beta=(b12 if mp_ else float(b12))))
            sc = R.scale_of(ac) * mpmath.sqrt(g2 * g22) * 2
            # float64: the combined velocity is rounded once; its effect is amplified by gamma^2
            env.eq_vec("collinear boosts compose by relativistic velocity addition", A3, A4, sc, g2 * g22 * 8)
        else:
            vec3 = [0.0, 0.0, 0.0]
            vec3["XYZ".index(ax)] = b1
            K = env.vec(sb, vec3)
            A4 = env.call("boost_beta3", lambda: A.boost_beta3(K))
            sc = R.scale_of(ac) * mpmath.sqrt(g2)
            env.eq_vec(f"{name}(beta) = boost_beta3(beta along {ax})", A2, A4, sc, g2 * 8)
            # gamma -> beta is ill-conditioned at beta = 0 (d beta/d gamma = 1/(beta gamma^3)): the
            # gamma spelling is compared only for |beta| above the precision-dependent threshold and
            # with the tolerance widened by 1/|beta|
            if abs(b1) > (1e-12 if mp_ else 1e-4):
                gam = (1 if b1 >= 0 else -1) / mpmath.sqrt(1 - mpf(b1) ** 2)
                A5 = env.call(name, lambda: fn(A, gamma=(gam if mp_ else float(gam))))
                env.eq_vec(f"{name}(beta) = {name}(gamma=sign(beta)/sqrt(1-beta^2))", A2, A5, sc, g2 * g2 * 8 / abs(mpf(b1)))
            nontrivial = abs(b1) > 1e-3
    elif law in ("cm_p4", "cm_beta3"):
        # the vector itself must be forward time-like
        if not (ac[3] > 0 and R.tau2(ac) > 0):
            raise Skip("not_forward_timelike")
        g2 = _p4_g2(a)
        if g2 > 900 and not mp_:
            raise Skip("gamma_too_large_f64")
        tau = R.tau(ac)
        sc = R.scale_of(ac) * mpmath.sqrt(g2)
        if law == "cm_p4":
            V = env.vec(sb, a)
            for nm in ("boostCM_of_p4", "boostCM_of"):
                r = env.call(nm, lambda nm=nm: getattr(A, nm)(V))
                env.check_representable(r, (0, 0, 0, tau))
                env.eq_cart(f"v.{nm}(v) = (0,0,0,tau)", env.cart(r), (mpf(0), mpf(0), mpf(0), tau), sc, g2 * 8)
        else:
            K = env.vec(sb, [a[0] / a[3], a[1] / a[3], a[2] / a[3]]) if not mp_ else env.vec(sb, R.to_beta3(ac))
            for nm in ("boostCM_of_beta3", "boostCM_of"):
                r = env.call(nm, lambda nm=nm: getattr(A, nm)(K))
                env.check_representable(r, (0, 0, 0, tau))
                env.eq_cart(f"v.{nm}(v.to_beta3()) = (0,0,0,tau)", env.cart(r), (mpf(0), mpf(0), mpf(0), tau), sc, g2 * g2 * 8)
    elif law == "dispatch":
        import vector

        two = vector.obj(x=0.1, y=0.2)
        for nm in ("boost", "boostCM_of"):
            try:
                getattr(A, nm)(two)
            except TypeError:
                pass
            except Exception as e:  # noqa: BLE001
                env.fail("dispatch", f"{nm}(2D vector) raised {type(e).__name__} instead of TypeError")
            else:
                env.fail("dispatch", f"{nm}(2D vector) did not raise TypeError")
        for nm, arg in (("boost_p4", vector.obj(x=0.1, y=0.2, z=0.3)), ("boost_beta3", vector.obj(x=1, y=2, z=3, t=9)),
                        ("boostCM_of_p4", vector.obj(x=0.1, y=0.2, z=0.3)), ("boostCM_of_beta3", vector.obj(x=1, y=2, z=3, t=9))):
            try:
                getattr(A, nm)(arg)
            except TypeError:
                pass
            except Exception as e:  # noqa: BLE001
                env.fail("dispatch", f"{nm}(wrong dimension) raised {type(e).__name__} instead of TypeError")
            else:
                env.fail("dispatch", f"{nm}(wrong dimension) did not raise TypeError")
        for kw in ({}, {"beta": 0.1, "gamma": 2.0}):
            try:
                A.boostX(**kw)
            except TypeError:
                pass
            else:
                env.fail("dispatch", f"boostX({kw}) did not raise TypeError")
        nontrivial = False
    else:
        raise KeyError(law)
    return nontrivial and opcheck.nonzero_components(ac)


def check_case(cell, bundle, ctx):
    if cell["law"] == "accuracy":
        from vcheck.props import c02

        for sub in bundle:
            ctx.evaluation()
            c02._check_accuracy(cell, sub, ctx)
        ctx.evaluations -= 1
        return
    laws.run_bundle(check_sub, cell, bundle, ctx)


def describe(cell, case):
    return case
