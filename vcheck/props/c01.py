"""C01 - results do not depend on the coordinate system operands are stored in.

Lattice: (public operation) x (dimension of each operand) x (stored coordinate system of
each operand) [x Euler order] x {60-digit tier, float64 tier}.  Oracle: the result for a
signature equals the result for the all-Cartesian signature of the same operation on the
same geometric operands (metamorphic relation stated by the property)."""

from __future__ import annotations

from mpmath import mpf

from vcheck import catalog, gen, mpbackend, obs, opcheck, refmodel as R
from vcheck.catalog import OPS
from vcheck.opcheck import CART, CallRaised

SHRINK = False


def reduce_candidates(cell, bundle):
    if len(bundle) > 1:
        for sub in bundle:
            yield [sub]


PID = "C01"
RULE = (
    "Cells = every catalogued public operation x operand dimensions x stored coordinate system of each operand "
    "(x 12 Euler orders, both letter cases) x {mp (60-digit object backend), f64 (real float64 objects)}; inside a cell "
    "Hypothesis draws canonical Cartesian operands from constructed strata (octants, near-axis, near-plane, "
    "phi near 0/+-pi/2/+-pi, near-light-cone both sides, spacelike, at rest, ultra-relativistic, t<0; operand "
    "relations equal/parallel/antiparallel/perpendicular/independent) and scalar arguments; the same geometric operands "
    "are presented in the cell's signature and in the all-Cartesian signature and results compared through the "
    "reference converters (mp: 1e-40*scale; f64: 1e-9*scale on the well-conditioned stratum). "
    "Non-trivial = signature is not all-Cartesian AND no operand component is exactly zero; distinct by (cell, input)."
)
ASSUMPTIONS = [
    "mpmath arithmetic at 60 digits and the reference coordinate converters (vcheck/refmodel.py) are correct",
    "the all-Cartesian variant is the comparison point, as the property states; its own correctness is C02's subject",
    "operands/results outside the representable domain (theta/eta storage on the z axis, tau storage with t<0) and "
    "inputs outside an operation's regular domain are excluded and counted",
    "boolean results are compared only when the decision margin exceeds 1e-6 (relative)",
]
EXHAUSTIVE = None

MARGIN = mpf("1e-6")


def _cells(tier):
    out = []
    modes = ("mp", "f64")
    for op in OPS.values():
        if "synonym" in op.tags and tier == "quick":
            continue
        for da in op.self_dims:
            for db in op.other_dims(da):
                for sa in R.SYSTEMS[da]:
                    for sb in (R.SYSTEMS[db] if db else [None]):
                        orders = [None]
                        if "order" in op.scalars:
                            orders = [o if (i % 3) else o.upper() for i, o in enumerate(gen.EULER_ORDERS)]
                            if tier == "thorough":
                                orders = list(gen.EULER_ORDERS) + [o.upper() for o in gen.EULER_ORDERS]
                        for order in orders:
                            for mode in modes:
                                if mode == "f64" and tier == "quick" and db and sb is not None:
                                    # quick: float64 tier on the diagonal + Cartesian row/column of binary tables
                                    if not (sa == CART[da] or sb == CART[db] or R.sysname(sa)[:3] == R.sysname(sb)[:3]):
                                        continue
                                cid = f"{op.name}|{da}{R.sysname(sa)}|{db or ''}{R.sysname(sb) if sb else ''}|{order or ''}|{mode}"
                                out.append({"id": cid, "op": op.name, "da": da, "db": db, "sa": R.sysname(sa),
                                            "sb": R.sysname(sb) if sb else None, "order": order, "mode": mode})
    return out


def cells(tier):
    return _cells(tier)


def examples(cell, tier):
    # one generated case is a bundle with one sub-case per stratum (12 for 4D operands)
    if tier == "quick":
        return 1 if cell["mode"] == "mp" else 2
    return 12 if cell["mode"] == "mp" else 12


def strategy(cell, tier):
    op = OPS[cell["op"]]
    return opcheck.bundle_strategy(op, cell["da"], cell["db"], cell["mode"], cell["order"])


def describe(cell, case):
    return {"cell": cell["id"], "a": case["a"], "b": case.get("b"), "scalars": case["s"], "relation": case.get("rel")}


def check_case(cell, bundle, ctx):
    for sub in bundle:
        ctx.evaluation()
        check_sub(cell, sub, ctx)
    ctx.evaluations -= 1  # the runner counted the bundle itself once


def _variant(cell):
    return f"{cell['da']}{cell['sa']}" + (f"+{cell['db']}{cell['sb']}" if cell["db"] else "") + (
        f"@{cell['order']}" if cell["order"] else "")


def check_sub(cell, case, ctx):
    op = OPS[cell["op"]]
    da, db = cell["da"], cell["db"]
    sa = opcheck.parse_system(cell["sa"])
    sb = opcheck.parse_system(cell["sb"]) if cell["sb"] else None
    mp_ = cell["mode"] == "mp"
    a, b = opcheck.canon(case, da, db)
    s_in = case["s"]
    s_ref = opcheck.mp_scalars(s_in)
    ctx.stratum(case["a"]["stratum"])
    if not op.pre(a, b, s_ref):
        ctx.exclude("precondition")
        return
    if not R.representable(sa, a) or (sb and not R.representable(sb, b)):
        ctx.exclude("operand_not_representable")
        return
    if op.name in ("equal", "not_equal", "isclose") and a == b and sa != sb:
        ctx.exclude("equal_pair_mixed_systems")
        return
    mom = op.momentum
    s_lib = s_ref if mp_ else s_in
    tol = opcheck.MP_TOL if mp_ else opcheck.F64_TOL
    backend = "object-mp" if mp_ else "object-f64"
    variant = _variant(cell)

    v0, a0 = obs.build(CART[da], a, mp_, mom)
    v1, a1 = obs.build(sa, a, mp_, mom)
    w0 = w1 = b0 = b1 = None
    if db:
        w0, b0 = obs.build(CART[db], b, mp_, False)
        w1, b1 = obs.build(sb, b, mp_, False)

    # boolean decisions: only away from the threshold
    if op.result == "bool":
        if op.name == "isclose":
            if case.get("rel") == "independent":
                dist = max(abs(p - q) for p, q in zip(a, b)) / R.scale_of(a, b) * (
                    1 if max(R.scale_of(a), R.scale_of(b)) < 1e3 else 0)
                if dist < mpf("0.3") or min(R.scale_of(a), 1) < 0:
                    ctx.exclude("isclose_margin")
                    return
            elif s_in["rtol"] == 0 and s_in["atol"] == 0 and not mp_:
                pass
        m = catalog.margin(op, a, b, s_ref)
        if m is not None and m < MARGIN:
            ctx.exclude("decision_margin")
            return

    try:
        r0 = opcheck.call(op, v0, w0, s_lib)
    except CallRaised as e:
        ctx.fail("exception", f"{op.name} raised {e.exc!r} for the all-Cartesian signature", op=op.name,
                 variant=f"{da}{R.sysname(CART[da])}", backend=backend)
        return
    try:
        r1 = opcheck.call(op, v1, w1, s_lib)
    except CallRaised as e:
        if mp_ and isinstance(e.exc, ZeroDivisionError):
            # mpmath raises where numpy returns inf/nan: singular input, outside the mp tier's regular domain
            ctx.exclude("mp_singular")
            return
        ctx.fail("exception", f"{op.name} raised {e.exc!r} for signature {variant}", op=op.name, variant=variant,
                 backend=backend)
        return

    k0 = opcheck.read_result(op, r0)
    k1 = opcheck.read_result(op, r1)
    scale = R.scale_of(a, b)
    q = opcheck.qualifiers(a, b)

    nontrivial = (sa != CART[da] or (sb is not None and sb != CART[db])) and opcheck.nonzero_components(a, b)

    if k0[0] == "vec":
        ref_cart = k0[3]
        # representability of the exact result in the system it actually came back in
        if opcheck.lossy_temporal(op.name, k1[1], ref_cart, (sa, sb)):
            ctx.fail("result_system" + q, f"{op.name} {variant}: the result came back stored as {R.sysname(k1[1])} "
                     f"{opcheck.fmt(k1[2])}, which cannot hold its exact time component {opcheck.fmt(ref_cart[3])} although an operand "
                     f"stores t; operands a={opcheck.fmt(a)} b={opcheck.fmt(b) if b else None}", op=op.name, variant=variant,
                     backend=backend)
            return
        # theta / eta storage of a result that cancelled onto the z axis (rho below 1e-18 of the scale) cannot carry 40 digits
        # of z even at 60-digit precision: not representable for the purposes of the comparison
        eps_axis = (mpf("1e-18") * R.scale_of(a, b, ref_cart)) ** 2 if mp_ else 0
        if not R.representable(k1[1], ref_cart, eps=eps_axis) or not R.representable(k0[1], ref_cart):
            ctx.exclude("result_not_representable")
            return
        if any(not obs.finite(x) for x in ref_cart):
            ctx.exclude("nonfinite_reference")
            return
        if not mp_ and len(k1[1]) >= 2 and k1[1][1] in ("theta", "eta") and \
                R.rho2(ref_cart) < (mpf("1e-3") * R.scale_of(a, b, ref_cart)) ** 2:
            # float64: a result that cancelled onto the z axis cannot carry z in theta / eta storage (z = rho / tan(theta) has
            # condition number ~ |z| / rho there) - the same rule as in C02; the 60-digit tier keeps such results
            ctx.exclude("ill_conditioned_result")
            return
        scale = R.scale_of(a, b, ref_cart)
        if len(k1[3]) != len(ref_cart):
            ctx.fail("dimension", f"{op.name}{variant}: result has {len(k1[3])} components, Cartesian signature gives "
                     f"{len(ref_cart)}", op=op.name, variant=variant, backend=backend)
            return
        n = op.changed if op.changed is not None else len(ref_cart)
        if not opcheck.vec_equiv(k1[1], k1[2], ref_cart, tol, scale, n):
            ctx.fail("value" + q, f"{op.name} {variant}: result {opcheck.fmt(k1[3])} (stored {k1[1]} {opcheck.fmt(k1[2])}) "
                     f"!= all-Cartesian result {opcheck.fmt(ref_cart)}; operands a={opcheck.fmt(a)} b={opcheck.fmt(b) if b else None} "
                     f"scalars={s_in}", op=op.name, variant=variant, backend=backend)
            return
        if op.changed is not None and len(k1[1]) > (1 if op.changed == 2 else 2):
            # pass-through coordinates must be the stored ones, bit for bit, in the same coordinate type
            keep_from = 2 if op.changed == 2 else 3
            sys_in = sa
            st_in = obs.stored(v1)
            idx = 1 if op.changed == 2 else 2
            if k1[1][idx:] != sys_in[idx:] or tuple(k1[2][keep_from:]) != tuple(st_in[keep_from:]):
                ctx.fail("passthrough", f"{op.name} {variant}: higher stored coordinates changed: in {sys_in}{opcheck.fmt(st_in)} "
                         f"out {k1[1]}{opcheck.fmt(k1[2])}", op=op.name, variant=variant, backend=backend)
                return
    elif k0[0] == "bool":
        if k0[1] != k1[1]:
            ctx.fail("bool" + q, f"{op.name} {variant}: {k1[1]} but all-Cartesian signature gives {k0[1]}; a={opcheck.fmt(a)} "
                     f"b={opcheck.fmt(b) if b else None} scalars={s_in}", op=op.name, variant=variant, backend=backend)
            return
    else:
        x0, x1 = k0[1], k1[1]
        if not obs.finite(x0):
            ctx.exclude("nonfinite_reference")
            return
        scale = R.scale_of(a, b, x0)
        if op.name == "deltaangle" and obs.finite(x1):
            # acos is ill-conditioned at 0 and pi: compare the cosines at tol, the angles at sqrt(tol)
            import mpmath
            ok = opcheck.close(mpmath.cos(x0), mpmath.cos(x1), tol, 1) and opcheck.close(x0, x1, mpmath.sqrt(tol) * 4, 1)
        elif op.result == "angle" and obs.finite(x1):
            ok = R.angle_close(x0, x1, tol * scale)
        else:
            ok = opcheck.close(x0, x1, tol, scale)
        if not ok:
            ctx.fail("value" + q, f"{op.name} {variant}: {opcheck.fmt(x1)} != all-Cartesian {opcheck.fmt(x0)}; a={opcheck.fmt(a)} "
                     f"b={opcheck.fmt(b) if b else None} scalars={s_in}", op=op.name, variant=variant, backend=backend)
            return
    if db and da == db and op.name in NULL_OK and (sb[0] == "rhophi" or (db >= 3 and sb[1] != "z")):
        if not _null_operand(ctx, op, cell, case, a, v0, v1, sb, db, mp_, s_lib, tol, backend, variant):
            return
    if nontrivial:
        ctx.nontrivial(key=case, sample=case)


# operations whose value is defined when the second operand is the null vector
NULL_OK = ("dot", "is_parallel", "is_antiparallel", "is_perpendicular", "add", "subtract")


def _null_operand(ctx, op, cell, case, a, v0, v1, sb, db, mp_, s_lib, tol, backend, variant):
    """The null vector has many polar representations (rho = 0 with any phi, any theta / eta): every one of them is the null
    vector, and an operation with it gives what the all-Cartesian call with (0, 0, ...) gives.  The stored angles are the
    first operand's own direction - the representation a cancelled magnitude would expose at once."""
    import mpmath

    phi_a = mpmath.atan2(a[1], a[0])
    rho_a = mpmath.sqrt(a[0] ** 2 + a[1] ** 2)
    stored = [mpf(0), mpf(0)] if sb[0] == "xy" else [mpf(0), phi_a]
    if db >= 3:
        if sb[1] == "z":
            stored.append(mpf(0))
        elif sb[1] == "theta":
            stored.append(mpmath.atan2(rho_a, a[2]) if (rho_a or a[2]) else mpf(1))
        else:
            stored.append(mpmath.asinh(a[2] / rho_a) if rho_a else mpf(0))
    if db == 4:
        stored.append(mpf(0))
    if not mp_:
        stored = [float(x) for x in stored]
    try:
        w1n = mpbackend.make(sb, tuple(stored), False, mp_)
        w0n = mpbackend.make(CART[db], tuple((mpf(0) if mp_ else 0.0) for _ in range(db)), False, mp_)
        r0 = opcheck.call(op, v0, w0n, s_lib)
        r1 = opcheck.call(op, v1, w1n, s_lib)
    except CallRaised as e:
        if mp_ and isinstance(e.exc, ZeroDivisionError):
            return True
        ctx.fail("exception", f"{op.name} {variant} with the null vector stored as {R.sysname(sb)}{opcheck.fmt(stored)} raised {e.exc!r}",
                 op=op.name, variant=variant, backend=backend)
        return False
    ctx.evaluation()
    k0, k1 = opcheck.read_result(op, r0), opcheck.read_result(op, r1)
    scale = R.scale_of(a)
    if k0[0] == "vec":
        ok = len(k0[3]) == len(k1[3]) and (opcheck.vec_close(k1[3], k0[3], tol, scale) or opcheck.vec_equiv(k1[1], k1[2], k0[3], tol, scale))
    elif k0[0] == "bool":
        ok = k0[1] == k1[1]
    else:
        ok = opcheck.close(k0[1], k1[1], tol, scale * scale)
    if not ok:
        ctx.fail("null_operand", f"{op.name} {variant}: with the null vector stored as {R.sysname(sb)}{opcheck.fmt(stored)} the result is "
                 f"{opcheck.fmt(k1[-1]) if k1[0] != 'bool' else k1[1]} but the all-Cartesian call with the null vector gives "
                 f"{opcheck.fmt(k0[-1]) if k0[0] != 'bool' else k0[1]}; a={opcheck.fmt(a)} scalars={case['s']}", op=op.name, variant=variant,
                 backend=backend)
        return False
    ctx.stratum("null_second_operand")
    return True


def extra_coverage(tier, results):
    try:
        unc = catalog.public_members_uncatalogued()
    except Exception:  # noqa: BLE001
        unc = ["<introspection unavailable>"]
    return {"uncatalogued_public_members": unc}
