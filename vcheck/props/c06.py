"""C06 - constructors accept the documented coordinate sets and store them verbatim.

Exhaustive over every subset of up to 5 of the 19 recognised names for every constructor,
against an independent classifier written from the docstring tables."""

from __future__ import annotations

import itertools

import numpy
from hypothesis import strategies as st

from vcheck import build, lattice, obs, opcheck, refmodel as R

import awkward as ak  # noqa: E402
import vector  # noqa: E402
from vector._methods import Momentum  # noqa: E402

PID = "C06"
SHRINK = False
EXHAUSTIVE = "every subset of at most 5 of the 19 recognised coordinate names (16 663 sets) x 11 constructors"
RULE = (
    "Cells = consecutive blocks of the enumeration of all name subsets of size 1..5 of {x,px,y,py,rho,pt,phi,z,pz,theta,eta,t,E,e,"
    "energy,tau,M,m,mass}; each name receives a distinct generated value (ints and floats), so a mislabelled or merged field is "
    "visible. Independent classifier: map synonyms to geometric names, reject a geometric name spelled twice, accept iff the "
    "geometric set is one of the 20 documented sets -> expected dimension, coordinate classes, flavor. vector.obj and the object "
    "classes: accept <=> classifier accepts (else TypeError), stored values equal and of the same numeric type; bool/str/None/"
    "complex/list values rejected with TypeError. vector.array (dict and dtype forms), vector.zip, vector.Array: a documented set "
    "is accepted and agrees with vector.obj; whatever is accepted must use a valid subset of the given names with values "
    "unchanged and keep every other given name as an extra field; with no valid subset they must raise. Non-trivial = sets of >= 2 "
    "names containing a complete azimuthal pair; distinct by name set and constructor."
)
ASSUMPTIONS = [
    "VectorObject*D classes are only asserted on geometric spellings, MomentumObject*D on geometric and momentum spellings (the class fixes the flavor)",
    "array constructors: the flavor is asserted only when the given names form a documented set without extras",
]

NAMES = ["x", "px", "y", "py", "rho", "pt", "phi", "z", "pz", "theta", "eta", "t", "E", "e", "energy", "tau", "M", "m", "mass"]
GEN = {"x": "x", "px": "x", "y": "y", "py": "y", "rho": "rho", "pt": "rho", "phi": "phi", "z": "z", "pz": "z", "theta": "theta",
       "eta": "eta", "t": "t", "E": "t", "e": "t", "energy": "t", "tau": "tau", "M": "tau", "m": "tau", "mass": "tau"}
VALID = {frozenset(R.coord_names(s)): s for d in (2, 3, 4) for s in R.SYSTEMS[d]}
BLOCK = 48


def all_sets():
    out = []
    for k in range(1, 6):
        out.extend(itertools.combinations(NAMES, k))
    return out


ALL = all_sets()


def classify(names):
    """-> (system, momentum) for a documented set, else None"""
    gen = [GEN[n] for n in names]
    if len(set(gen)) != len(gen):
        return None
    s = VALID.get(frozenset(gen))
    if s is None:
        return None
    return s, any(n != GEN[n] for n in names)


def valid_subsets(names):
    out = []
    for k in range(2, len(names) + 1):
        for sub in itertools.combinations(names, k):
            if classify(sub) is not None:
                out.append(sub)
    return out


def reduce_candidates(cell, case):
    return iter(())


def cells(tier):
    n = len(ALL)
    out = []
    for b in range(0, n, BLOCK):
        out.append({"id": f"sets|{b:05d}", "group": "sets", "start": b, "stop": min(n, b + BLOCK)})
    for i, kind in enumerate(("bool", "str", "none", "complex", "list", "npbool", "npstr")):
        out.append({"id": f"values|{kind}", "group": "values", "kind": kind})
    out.append({"id": "values|accepted_kinds", "group": "values", "kind": "accepted"})
    return out


def examples(cell, tier):
    return 1 if tier == "quick" else 4


def strategy(cell, tier):
    vals = st.lists(st.one_of(st.integers(-50, 50), st.floats(-50, 50).map(lambda v: round(v, 3))), min_size=19, max_size=19, unique=True)
    return st.fixed_dictionaries({"vals": vals, "ints": st.booleans()})


def _value_map(case):
    vals = case["vals"]
    out = {}
    for n, v in zip(NAMES, vals):
        out[n] = v if (case["ints"] and isinstance(v, int)) else float(v) + 0.0
    # phi / theta inside plausible ranges is irrelevant for storage; keep raw numbers
    return out


def _stored_map(v):
    """name -> value for what an object vector stores"""
    return dict(zip(R.coord_names(obs.system_of(v)), obs.stored(v)))


OBJ_CLASSES = {
    2: ("VectorObject2D", "MomentumObject2D"), 3: ("VectorObject3D", "MomentumObject3D"), 4: ("VectorObject4D", "MomentumObject4D"),
}


def check_case(cell, case, ctx):
    if cell["group"] == "values":
        _check_values(cell, case, ctx)
    else:
        vm = _value_map(case)
        for names in ALL[cell["start"]: cell["stop"]]:
            _check_set(cell, names, vm, ctx)
    ctx.evaluations -= 1


def _fail(ctx, ctor, names, kind, msg):
    ctx.fail(kind, f"{ctor}({', '.join(names)}): {msg}", op=ctor, variant="+".join(names), backend=ctor)


def _check_set(cell, names, vm, ctx):
    exp = classify(names)
    kw = {n: vm[n] for n in names}
    nontrivial = len(names) >= 2 and (({"x", "px"} & set(names) and {"y", "py"} & set(names)) or ({"rho", "pt"} & set(names) and "phi" in names))
    # ---------------------------------------------------------------- vector.obj
    ctx.evaluation()
    try:
        v = vector.obj(**kw)
        err = None
    except TypeError as e:
        v, err = None, e
    except Exception as e:  # noqa: BLE001
        _fail(ctx, "obj", names, "wrong_exception", f"raised {type(e).__name__}: {e!s:.150} (TypeError expected for an undocumented set)")
        return
    if exp is None and v is not None:
        _fail(ctx, "obj", names, "accepted_undocumented", f"accepted an undocumented coordinate set and built {v!r}")
        return
    if exp is not None:
        system, mom = exp
        if v is None:
            _fail(ctx, "obj", names, "rejected_documented", f"rejected a documented coordinate set: {err!s:.150}")
            return
        if obs.system_of(v) != system or isinstance(v, Momentum) != mom or obs.dim_of(v) != len(system) + 1:
            _fail(ctx, "obj", names, "wrong_type", f"built {type(v).__name__}{obs.system_of(v)}, expected {'momentum' if mom else 'generic'} {system}")
            return
        sm = _stored_map(v)
        for n in names:
            got = sm[GEN[n]]
            if got != kw[n] or type(got) is not type(kw[n]):
                _fail(ctx, "obj", names, "value_changed", f"{n}={kw[n]!r} stored as {GEN[n]}={got!r}")
                return
    # ---------------------------------------------------------------- object classes
    for d in (2, 3, 4):
        for ci, cname in enumerate(OBJ_CLASSES[d]):
            cls = getattr(vector, cname)
            is_mom_cls = ci == 1
            uses_mom = any(n != GEN[n] for n in names)
            if uses_mom and not is_mom_cls:
                continue  # momentum spellings on a geometric class: unspecified
            ctx.evaluation()
            try:
                o = cls(**kw)
                err = None
            except TypeError as e:
                o, err = None, e
            except Exception as e:  # noqa: BLE001
                _fail(ctx, cname, names, "wrong_exception", f"raised {type(e).__name__}: {e!s:.150}")
                return
            ok = exp is not None and len(exp[0]) + 1 == d
            if not ok and o is not None:
                _fail(ctx, cname, names, "accepted_undocumented", f"accepted an undocumented coordinate set and built {o!r}")
                return
            if ok:
                if o is None:
                    _fail(ctx, cname, names, "rejected_documented", f"rejected a documented coordinate set: {err!s:.150}")
                    return
                if obs.system_of(o) != exp[0] or type(o).__name__ != cname:
                    _fail(ctx, cname, names, "wrong_type", f"built {type(o).__name__}{obs.system_of(o)}")
                    return
                sm = _stored_map(o)
                for n in names:
                    if sm[GEN[n]] != kw[n] or type(sm[GEN[n]]) is not type(kw[n]):
                        _fail(ctx, cname, names, "value_changed", f"{n}={kw[n]!r} stored as {sm[GEN[n]]!r}")
                        return
                if v is not None and (obs.system_of(v), tuple(obs.stored(v))) != (obs.system_of(o), tuple(obs.stored(o))):
                    _fail(ctx, cname, names, "disagree", "class constructor and vector.obj disagree")
                    return
    # ---------------------------------------------------------------- array constructors
    # columns of different dtypes (every other one int64), fractional values in the float ones, and - for the dict form - keys
    # in non-canonical order: what is stored must be what was given, column by column
    cols = {}
    for k, n in enumerate(names):
        if k % 2:
            cols[n] = numpy.array([int(vm[n]) + 1, int(vm[n]) + 2, int(vm[n]) + 4], dtype=numpy.int64)
        else:
            cols[n] = numpy.array([float(vm[n]), float(vm[n]) + 0.5, float(vm[n]) + 1.25])
    rcols = {n: cols[n] for n in reversed(list(cols))}
    subs = valid_subsets(names)
    ctors = {
        "array_dict": lambda: vector.array(dict(cols)),
        "array_dict_reversed": lambda: vector.array(dict(rcols)),
        "zip_reversed": lambda: vector.zip(dict(rcols)),
        "array_dtype": lambda: vector.array(list(zip(*[cols[n] for n in names])), dtype=[(n, numpy.float64) for n in names]),
        # the dtype may be passed positionally, like numpy.array(object, dtype)
        "array_dtype_pos": lambda: vector.array(list(zip(*[cols[n] for n in names])), [(n, numpy.float64) for n in names]),
        "arr_alias": lambda: vector.arr(dict(cols)),
        # one numpy.dtype object used for two calls (the second call must see what the first one saw)
        "array_dtype_object_reused": lambda: _twice(list(zip(*[cols[n] for n in names])), numpy.dtype([(n, numpy.float64) for n in names])),
        # an existing structured array as input keeps its own field names
        "array_from_structured": lambda: _from_structured(cols, names),
        # ... also when its dtype is not packed in declaration order (a multi-field selection of a wider table, explicit offsets)
        "array_from_structured_offsets": lambda: _from_structured(cols, names, offsets=True),
        "zip": lambda: vector.zip(dict(cols)),
        "zip_ak": lambda: vector.zip({n: ak.Array(cols[n]) for n in names}),
        "Array": lambda: vector.Array([{n: float(cols[n][i]) for n in names} for i in range(3)]),
        "Array_from_ak": lambda: vector.Array(ak.Array([{n: float(cols[n][i]) for n in names} for i in range(3)])),
        "awk_alias": lambda: vector.awk([{n: float(cols[n][i]) for n in names} for i in range(3)]),
        # a vector array that grew more fields after it was built goes through the same analysis as fresh records
        "Array_of_vector_array_plus_fields": lambda: _array_grown(cols, names, subs),
    }
    for cn, f in ctors.items():
        ctx.evaluation()
        try:
            a = f()
            err = None
        except AssertionError as e:
            _fail(ctx, cn, names, "input_modified", str(e))
            return
        except Exception as e:  # noqa: BLE001
            a, err = None, e
        if a is None:
            if exp is not None:
                _fail(ctx, cn, names, "rejected_documented", f"rejected a documented coordinate set: {type(err).__name__}: {err!s:.150}")
                return
            continue
        if not subs:
            _fail(ctx, cn, names, "accepted_incomplete", f"built {type(a).__name__} although no valid coordinate set is contained in the names")
            return
        try:
            system, rows = lattice.read_vector_rows(a)
        except Exception as e:  # noqa: BLE001
            _fail(ctx, cn, names, "unreadable", f"returned {type(a).__name__} whose coordinates cannot be read: {e!r}")
            return
        chosen = []
        for j, c in enumerate(R.coord_names(system)):
            col = [r[j] for r in rows]
            src = [n for n in names if GEN[n] == c and [float(x) for x in cols[n]] == [float(x) for x in col]]
            if not src:
                _fail(ctx, cn, names, "value_changed", f"coordinate {c} of the result holds {col}, which is none of the given columns "
                      f"{ {n: cols[n].tolist() for n in names if GEN[n] == c} }")
                return
            chosen.append(src[0])
        if exp is not None:
            if system != exp[0] or isinstance(a, Momentum) != exp[1]:
                _fail(ctx, cn, names, "wrong_type", f"built {type(a).__name__}{system}, expected {'momentum' if exp[1] else 'generic'} {exp[0]}")
                return
        # every other given name is carried as an extra field with its values
        rest = [n for n in names if n not in chosen]
        if isinstance(a, numpy.ndarray):
            fields = a.dtype.names
            getcol = lambda k: numpy.asarray(a.view(numpy.ndarray)[k]).tolist()  # noqa: E731
        else:
            fields = ak.fields(a)
            getcol = lambda k: ak.to_list(a[k])  # noqa: E731
        for n in rest:
            cand = [k for k in (n, GEN[n]) if k in fields]
            if not any(getcol(k) == cols[n].tolist() for k in cand):
                _fail(ctx, cn, names, "extra_lost", f"given name {n} is neither part of the vector {chosen} nor kept as a field with its values "
                      f"(fields: {list(fields)})")
                return
    # an option-typed column (ak.firsts, ak.mask, a list with None): the other columns keep their values where it is missing
    if exp is not None:
        for kopt in range(len(names)):
            opt = {n: (ak.Array([float(cols[n][0]), None, float(cols[n][2])]) if k == kopt else ak.Array(cols[n])) for k, n in enumerate(names)}
            ctx.evaluation()
            try:
                a = vector.zip(dict(opt))
            except Exception as e:  # noqa: BLE001
                _fail(ctx, "zip_option_column", names, "rejected_documented", f"vector.zip with an option-typed {names[kopt]} column raised "
                      f"{type(e).__name__}: {e!s:.150}")
                return
            fields = ak.fields(a)
            for n in names:
                cand = [k for k in (n, GEN[n]) if k in fields]
                want = ak.to_list(opt[n])
                if not any(ak.to_list(a[k]) == want for k in cand):
                    _fail(ctx, "zip_option_column", names, "value_changed", f"vector.zip with a missing value in column {names[kopt]}: column {n} "
                          f"was given as {want}, the result holds { {k: ak.to_list(a[k]) for k in cand} }")
                    return
    if nontrivial:
        ctx.nontrivial(key=list(names), sample={"names": list(names), "expected": None if exp is None else [R.sysname(exp[0]), exp[1]]})


def _array_grown(cols, names, subs):
    base = None
    for sub in sorted(subs, key=len):
        if len(sub) == 2:
            base = [n for n in names if n in sub]
            break
    if base is None or len(base) == len(names) or any(GEN[n] != n for n in base):
        # (vector.zip renames momentum-spelled fields to the geometric names, so a base spelled px, py would no longer carry
        # its flavor in the field names)
        return vector.Array([{n: float(cols[n][i]) for n in names} for i in range(3)])
    v0 = vector.zip({n: cols[n] for n in base})
    for n in names:
        if n not in base:
            v0 = ak.with_field(v0, cols[n], n)
    return vector.Array(v0)


def _twice(rows, dt):
    names_before = dt.names
    first = vector.array(rows, dtype=dt)
    second = vector.array(rows, dtype=dt)
    if dt.names != names_before:
        raise AssertionError(f"vector.array renamed the fields of the caller's dtype object: {names_before} -> {dt.names}")
    if type(first) is not type(second) or first.dtype != second.dtype:
        raise AssertionError(f"two calls with the same dtype object give {type(first).__name__}{first.dtype.names} and "
                             f"{type(second).__name__}{second.dtype.names}")
    return second


def _from_structured(cols, names, offsets=False):
    if offsets:
        k = len(names)
        dt = numpy.dtype({"names": list(names), "formats": [numpy.float64] * k, "offsets": [8 * (k - 1 - j) + 8 for j in range(k)],
                          "itemsize": 8 * k + 16})
        src = numpy.zeros(3, dtype=dt)
    else:
        src = numpy.zeros(3, dtype=[(n, numpy.float64) for n in names])
    for n in names:
        src[n] = cols[n]
    before = src.dtype.names
    out = vector.array(src, dtype=src.dtype)
    if src.dtype.names != before:
        raise AssertionError(f"vector.array renamed the fields of the input array: {before} -> {src.dtype.names}")
    return out


def _check_values(cell, case, ctx):
    vm = _value_map(case)
    kind = cell["kind"]
    bad = {"bool": True, "str": "1.0", "none": None, "complex": 1 + 2j, "list": [1.0], "npbool": numpy.bool_(True), "npstr": numpy.str_("2")}
    good = [3, 2.5, numpy.float32(1.5), numpy.float64(2.25), numpy.int32(4), numpy.int64(-5)]
    for d in (2, 3, 4):
        for system in R.SYSTEMS[d]:
            names = R.coord_names(system)
            for pos in range(len(names)):
                if kind == "accepted":
                    for g in good:
                        ctx.evaluation()
                        kw = {n: float(vm[n]) for n in names}
                        kw[names[pos]] = g
                        for cn, ctor in (("obj", vector.obj), (OBJ_CLASSES[d][0], getattr(vector, OBJ_CLASSES[d][0]))):
                            try:
                                v = ctor(**kw)
                            except Exception as e:  # noqa: BLE001
                                _fail(ctx, cn, names, "rejected_number", f"rejected {names[pos]}={g!r} ({type(g).__name__}): {type(e).__name__}")
                                return
                            got = _stored_map(v)[names[pos]]
                            if got != g or type(got) is not type(g):
                                _fail(ctx, cn, names, "value_changed", f"{names[pos]}={g!r} stored as {got!r} ({type(got).__name__})")
                                return
                    ctx.nontrivial(key=[names, pos], sample={"names": names, "numeric kinds": [type(g).__name__ for g in good]})
                    continue
                ctx.evaluation()
                kw = {n: float(vm[n]) for n in names}
                kw[names[pos]] = bad[kind]
                for cn, ctor in (("obj", vector.obj), (OBJ_CLASSES[d][0], getattr(vector, OBJ_CLASSES[d][0])),
                                 (OBJ_CLASSES[d][1], getattr(vector, OBJ_CLASSES[d][1]))):
                    try:
                        v = ctor(**kw)
                    except TypeError:
                        continue
                    except Exception as e:  # noqa: BLE001
                        _fail(ctx, cn, names, "wrong_exception", f"{names[pos]}={bad[kind]!r} raised {type(e).__name__} instead of TypeError")
                        return
                    _fail(ctx, cn, names, "accepted_non_number", f"accepted {names[pos]}={bad[kind]!r} ({kind}) and built {v!r}")
                    return
                ctx.nontrivial(key=[names, pos, kind], sample={"names": names, "bad": kind, "position": pos})


def describe(cell, case):
    return {"values": dict(zip(NAMES, case["vals"]))}
