"""C03 - object, NumPy and Awkward backends compute the same values.

Differential oracle: element i of an array result == the float64 object-backend result for
element i (and the scalar argument / other operand that pairs with it); array shape / list
structure / missing positions of the result == those of the array operand."""

from __future__ import annotations

import zlib

from hypothesis import strategies as st
from mpmath import mpf

from vcheck import build, catalog, lattice, obs, opcheck, refmodel as R
from vcheck.catalog import OPS

PID = "C03"
SHRINK = False
RULE = (
    "Cells = catalogued operation x operand dimensions x K configurations drawn by a deterministic hash so that every value "
    "of every factor is covered for every operation: layout of the first operand {NumPy (6,), NumPy (2,3), Awkward flat, "
    "jagged with an empty list, nested depth 3, option-typed records, option-typed lists, regular, single Awkward record}, "
    "kind of the second operand {same layout, single object, single record, other array backend}, stored systems, flavors, "
    "generic/momentum field spelling (E/e/energy, mass/M/m), scalar arguments as Python numbers or per-element arrays in the "
    "operand's structure. Further cells: the operator spellings a+b, a-b, a*s, s*a, a/s; conversions / embeddings with fractional keyword values; int64-stored and non-native-byte-order (NumPy) operands; single object x int64 / momentum-spelled Awkward array in both orders. A case is a list of 6 generated element vectors (well-conditioned stratum; relations "
    "equal/parallel/... for pairs) materialised on each backend. Non-trivial = >= 2 distinct elements and a non-flat layout or a "
    "mixed backend pairing; distinct by (cell, input)."
)
ASSUMPTIONS = [
    "same stored float64 inputs on both sides; tolerance 1e-10*scale covers scalar-vs-SIMD kernel differences",
    "elements outside an operation's regular domain (where Python floats raise and NumPy returns inf/nan) are compared as positions only",
]
TOL = mpf("1e-10")

UNARY_KINDS = lattice.ARRAY_KINDS + ("record",)


def reduce_candidates(cell, case):
    return iter(())


def _configs(op, da, db, k_total, salt=""):
    out = []
    key = f"{op.name}{da}{db}{salt}"
    h = zlib.crc32(key.encode())
    for k in range(k_total):
        hk = h + k * 2654435761
        ka = UNARY_KINDS[(h + k) % len(UNARY_KINDS)]
        cfg = {"op": op.name, "da": da, "db": db, "ka": ka}
        SA = R.SYSTEMS[da]
        cfg["sa"] = R.sysname(SA[(hk >> 3) % len(SA)])
        cfg["fa"] = "gm"[(hk >> 7) % 2]
        cfg["extra"] = bool((hk >> 9) % 2)
        cfg["alt"] = (hk >> 11) % 3
        ak_kind = ka in build.AK_LAYOUTS or ka == "record"
        cfg["spa"] = "momentum" if (cfg["fa"] == "m" or op.momentum) and ak_kind and (hk >> 13) % 2 else "generic"
        if op.momentum:
            cfg["fa"] = "m"
        cfg["scal"] = "arr" if (ka in lattice.ARRAY_KINDS and (hk >> 15) % 2) else "py"
        if db:
            SB = R.SYSTEMS[db]
            cfg["sb"] = R.sysname(SB[(hk >> 17) % len(SB)])
            cfg["fb"] = "gm"[(hk >> 19) % 2]
            choices = ["same", "object", "record", "other", "same"]
            c = choices[(hk >> 21) % len(choices)]
            if ka == "record":
                kb = ["record", "object", "flat", "jagged"][(hk >> 23) % 4]
            elif c == "same":
                kb = ka
            elif c == "other":
                kb = "flat" if ka in build.NP_LAYOUTS else ("np1" if ka in ("flat",) else ka)
                if ka == "np2":
                    kb = "np2" if (hk >> 29) % 2 else "regular"
                if ka == "regular":
                    kb = "np2"
            else:
                kb = c
            # swap roles sometimes: single vector first, array second
            if kb in ("object", "record") and ka in lattice.ARRAY_KINDS and (hk >> 25) % 2:
                cfg["ka"], kb = kb, ka
                cfg["spa"] = "generic"
                cfg["scal"] = cfg["scal"]
            if "axis" in op.tags and cfg["ka"] in ("object", "record") and kb in lattice.ARRAY_KINDS:
                kb = "object"  # the axis is a secondary argument: a single vector is not broadcast against it
            cfg["kb"] = kb
            # integer-typed stored columns on one of the array operands (values are then integer-valued for both backends)
            cand = [w for w, kk in (("dtype_a", cfg["ka"]), ("dtype_b", kb)) if kk in lattice.ARRAY_KINDS or kk == "record"]
            if (hk >> 31) % 3 == 0 and cand:
                cfg[cand[(hk >> 33) % len(cand)]] = "i64"
                cfg["ints"] = True
            kbk = kb in build.AK_LAYOUTS or kb == "record"
            cfg["spb"] = "momentum" if cfg["fb"] == "m" and kbk and (hk >> 27) % 2 else "generic"
        if not db and (hk >> 31) % 7 == 0:
            cfg["dtype_a"] = "i64"
            cfg["ints"] = True
        awk_involved = any(k_ in build.AK_LAYOUTS or k_ == "record" for k_ in (cfg["ka"], cfg.get("kb")))
        if not cfg.get("ints") and (hk >> 35) % 4 == 0 and not awk_involved:
            # NumPy operands stored in non-native byte order compute the same values (Awkward itself rejects such buffers,
            # so pairings with Awkward operands are left out)
            if cfg["ka"] in build.NP_LAYOUTS:
                cfg["dtype_a"] = "be"
            if cfg.get("kb") in build.NP_LAYOUTS:
                cfg["dtype_b"] = "be"
        out.append(cfg)
    if not db and op.result == "vec":
        # always present: vector-valued operations on arrays whose stored columns are int64 (computed coordinates are floats and
        # must not be written back into integer columns)
        SA = R.SYSTEMS[da]
        for j, ka in enumerate(("np1", "np2", "flat")):
            out.append({"op": op.name, "da": da, "db": None, "ka": ka, "sa": R.sysname(SA[(h >> (3 * j + 1)) % len(SA)]),
                        "fa": "m" if op.momentum else "gm"[(h >> j) % 2], "extra": False, "alt": 0, "spa": "generic",
                        "scal": "py", "dtype_a": "i64", "ints": True})
        if da == 4:
            # int64 spatial columns next to a float64, fractional temporal column
            for j, ka in enumerate(("np1", "np2")):
                out.append({"op": op.name, "da": da, "db": None, "ka": ka, "sa": R.sysname(SA[(h >> (2 * j + 2)) % len(SA)]),
                            "fa": "m" if op.momentum else "gm"[(h >> j) % 2], "extra": False, "alt": 0, "spa": "generic",
                            "scal": "py", "dtype_a": "i64s", "ints": True})
    if db and "axis" not in op.tags:
        # always present: a single object broadcast against an Awkward array whose columns are int64 (coordinates of the
        # object that pass through unchanged must keep their own values), and the same pairing the other way round
        SA, SB = R.SYSTEMS[da], R.SYSTEMS[db]
        for j, (ka, kb, w) in enumerate((("object", ("flat", "jagged", "optrec")[h % 3], "dtype_b"),
                                         (("jagged", "flat", "optlist")[h % 3], "object", "dtype_a"))):
            out.append({"op": op.name, "da": da, "db": db, "ka": ka, "kb": kb, "sa": R.sysname(SA[(h >> (4 + j)) % len(SA)]),
                        "sb": R.sysname(SB[(h >> (9 + j)) % len(SB)]), "fa": "gm"[(h >> 2) % 2], "fb": "gm"[(h >> 3) % 2],
                        "extra": False, "alt": (h >> 5) % 3, "spa": "generic", "scal": "py", w: "i64", "ints": True,
                        # (a momentum Awkward operand carries its fields under the momentum names: px ... E/e/energy, mass/M/m)
                        "spb": "momentum" if ((h >> 3) % 2 and kb != "object") else "generic"})
    return out


def _integer_valued(system, cart, d):
    """the nearest vector whose stored coordinates in `system` are integers inside the coordinate ranges"""
    c = tuple(mpf(x) for x in cart[:d])
    if not R.representable(system, c):
        return None
    stored = [float(x) for x in R.from_cartesian(system, c)]
    names = R.coord_names(system)
    out = []
    for n, x in zip(names, stored):
        v = float(round(x))
        if n == "rho":
            v = max(1.0, v)
        elif n == "theta":
            v = min(3.0, max(1.0, v))
        elif n == "phi":
            v = min(3.0, max(-3.0, v))
        elif n in ("t", "tau", "x", "z") and v == 0:
            v = 1.0 if x >= 0 else -1.0
        out.append(v)
    # the integer tuple must itself be a valid stored vector (a fixed point of store -> Cartesian -> store): e.g. tau = -3
    # with |p| = 2.4 is not (a space-like vector has tau**2 <= p**2); fall back to small temporal values
    cands = [tuple(out)]
    if d == 4:
        cands += [tuple(out[:3]) + (t_,) for t_ in (1.0, -1.0, 2.0)]
    for cand in cands:
        back = [float(x) for x in R.to_cartesian(system, cand)]
        if any(x != x or abs(x) == float("inf") for x in back):
            continue
        if not R.representable(system, tuple(mpf(x) for x in back)):
            continue
        again = [float(x) for x in R.from_cartesian(system, tuple(mpf(x) for x in back))]
        if all(abs(a_ - b_) < 1e-9 for a_, b_ in zip(again, cand)):
            return back + [float(x) for x in cart[d:]]
    return None


def cells(tier):
    out = []
    k_total = 10 if tier == "quick" else 40
    for op in OPS.values():
        if "synonym" in op.tags and tier == "quick":
            continue
        for da in op.self_dims:
            for db in op.other_dims(da):
                for k, cfg in enumerate(_configs(op, da, db, k_total)):
                    cfg = dict(cfg)
                    cfg["id"] = f"{op.name}|{da}|{db or ''}|{k}"
                    out.append(cfg)
    # conversions / embeddings with scalar keyword values (their exact values are C04's subject; here: the array backends
    # against the object backend, including integer-typed stored columns next to fractional keyword values)
    for op in catalog.EXTRA_OPS.values():
        for da in op.self_dims:
            cfgs = _configs(op, da, None, 3 if tier == "quick" else 10, salt="conv")
            SA = R.SYSTEMS[da]
            hh = zlib.crc32(f"conv{op.name}{da}".encode())
            for j, ka in enumerate(("np1", "np2", "flat", "jagged")):
                cfgs.append({"op": op.name, "da": da, "db": None, "ka": ka, "sa": R.sysname(SA[(hh >> (3 * j)) % len(SA)]), "fa": "gm"[(hh >> j) % 2],
                             "extra": False, "alt": 0, "spa": "generic", "scal": "py", "dtype_a": "i64", "ints": True})
            for k, cfg in enumerate(cfgs):
                cfg = dict(cfg)
                cfg["id"] = f"{op.name}|{da}||conv{k}"
                out.append(cfg)
    # the operator spellings of add / subtract / scale go through each backend's own ufunc machinery
    for opcall, (base, _) in OPCALLS.items():
        op = OPS[base]
        for da in op.self_dims:
            for db in op.other_dims(da):
                for k, cfg in enumerate(_configs(op, da, db, k_total, salt=opcall)):
                    cfg = dict(cfg)
                    cfg["opcall"] = opcall
                    cfg["id"] = f"operator {opcall}|{da}|{db or ''}|{k}"
                    out.append(cfg)
            if base == "scale":
                # a fractional factor (a Python float or an array of floats) with an operand whose stored columns are int64
                SA = R.SYSTEMS[da]
                hh = zlib.crc32(f"{opcall}{da}i64".encode())
                for j, (ka, scal) in enumerate((("np1", "arr"), ("np2", "arr"), ("np1", "py"), ("flat", "arr"))):
                    out.append({"op": base, "da": da, "db": None, "ka": ka, "sa": R.sysname(SA[(hh >> (3 * j)) % len(SA)]), "fa": "gm"[(hh >> j) % 2],
                                "extra": False, "alt": 0, "spa": "generic", "scal": scal, "dtype_a": "i64", "ints": True, "opcall": opcall,
                                "id": f"operator {opcall}|{da}||i64-{j}"})
    return out


OPCALLS = {
    "a+b": ("add", lambda A, B, sc: A + B),
    "a-b": ("subtract", lambda A, B, sc: A - B),
    "a*s": ("scale", lambda A, B, sc: A * sc["factor"]),
    "s*a": ("scale", lambda A, B, sc: sc["factor"] * A),
    "a/s": ("scale", lambda A, B, sc: A / (1.0 / sc["factor"])),
}


def examples(cell, tier):
    return 1 if tier == "quick" else 4


def strategy(cell, tier):
    op = catalog.get(cell["op"])
    one = opcheck.case_strategy(op, cell["db"], "f64", None)
    return st.tuples(*([one] * lattice.N)).map(list)


def _desc(cell):
    return (f"{cell.get('opcall') or cell['op']} a:{cell['ka']}/{cell['da']}{cell['sa']}/{cell['fa']}/{cell.get('spa')}"
            + (f" b:{cell['kb']}/{cell['db']}{cell['sb']}/{cell['fb']}/{cell.get('spb')}" if cell.get("db") else "")
            + f" scal={cell.get('scal')} extra={cell.get('extra')}" + (f" int64:{'a' if cell.get('dtype_a') else 'b'}" if cell.get("ints") else ""))


def _backend_label(cell):
    ks = [cell["ka"]] + ([cell["kb"]] if cell.get("db") else [])
    return "+".join(lattice.backend_of_kind(k) if k != "record" else "awkward-record" for k in ks)


def _norm(sk):
    """NumPy shapes and list skeletons in one form (an Awkward result for a NumPy operand is legitimate when the
    other operand is an Awkward record)"""
    if isinstance(sk, tuple) and sk and sk[0] == "ndarray":
        def mk(shape):
            return 0 if not shape else [mk(shape[1:]) for _ in range(shape[0])]
        return mk(sk[1])
    return sk


def check_case(cell, elems, ctx):
    op = catalog.get(cell["op"])
    if "order" in op.scalars:
        o0 = elems[0]["s"]["order"]
        for e in elems:
            e["s"]["order"] = o0
    if cell.get("ints"):
        # the int64 operand holds integer-valued stored coordinates; the other operand keeps its generated float values
        elems = [dict(e) for e in elems]
        for e in elems:
            for which, sysname, dd in (("a", cell["sa"], cell["da"]), ("b", cell.get("sb"), cell.get("db"))):
                if not dd or e.get(which) is None or not cell.get("dtype_" + which):
                    continue
                iv = _integer_valued(opcheck.parse_system(sysname), e[which]["c"], dd)
                if iv is None:
                    ctx.exclude("operand_not_representable")
                    return
                if cell.get("dtype_" + which) == "i64s" and dd == 4:
                    iv = tuple(iv[:3]) + (iv[3] + 0.5,)
                e[which] = dict(e[which], c=iv)
    if cell.get("opcall"):
        kinds = (cell["ka"], cell.get("kb"))
        if "record" in kinds and any(k in ("regular", "np2", "np2T") for k in kinds):
            # Awkward itself cannot broadcast an ak.Record against a regular-dimension array inside a ufunc (reproduced with
            # a two-line behavior and no vector code); only the method form, which vector broadcasts itself, is defined there
            ctx.exclude("awkward_record_ufunc_vs_regular_array")
            return
        cell = dict(cell, _call=OPCALLS[cell["opcall"]][1])
    o = lattice.evaluate(cell, elems)
    be = _backend_label(cell)
    variant = f"{cell['da']}{cell['sa']}" + (f"+{cell['db']}{cell['sb']}" if cell.get("db") else "")

    def fail(kind, msg):
        ctx.fail(kind, f"{_desc(cell)}: {msg}", op=op.name, variant=variant, backend=be)

    if o.skipped:
        ctx.exclude(o.skipped)
        return
    ctx.evaluation(len(o.present))
    refs_ok = [r for r in o.ref if r[0] == "ok"]
    if o.exc is not None:
        if not refs_ok:
            ctx.exclude("both_raise")
            return
        fail("exception", f"array call raised {type(o.exc).__name__}: {o.exc!s:.300} but the object backend computes it "
             f"(rows_a={o.rows_a[:2]} rows_b={(o.rows_b or [])[:2]})")
        return
    res = o.result
    npres = len(o.present)
    # structure / shape of the result follows the array operand
    lead_arr = o.A if cell["ka"] in lattice.ARRAY_KINDS else (o.B if cell.get("kb") in lattice.ARRAY_KINDS else None)
    if lead_arr is not None:
        want = build.vector_skeleton(lead_arr)
        if cell["ka"] in lattice.ARRAY_KINDS and cell.get("kb") in lattice.ARRAY_KINDS and cell["ka"] != cell["kb"]:
            want = None  # mixed array backends: only the element count is compared
        if op.result == "vec":
            got = build.vector_skeleton(res) if lattice.classify(res) not in ("scalar",) else "scalar"
        else:
            got = build.skeleton(res) if not isinstance(res, (bool, float, int)) else "scalar"
        if want is not None and _norm(got) != _norm(want):
            fail("structure", f"result structure {got} != operand structure {want}")
            return
    # values element by element
    try:
        if op.result == "vec":
            sysr, rows = lattice.read_vector_rows(res)
        else:
            vals = build.flat_values(res)
    except Exception as e:  # noqa: BLE001
        fail("result_type", f"result of type {type(res).__name__} is not readable as {op.result}: {e!r}")
        return
    got_n = len(rows) if op.result == "vec" else len(vals)
    if got_n != npres:
        fail("structure", f"result has {got_n} present elements, operand has {npres}")
        return
    for j, (ipres, ref) in enumerate(zip(o.present, o.ref)):
        if ref[0] != "ok" or not o.pre[ipres]:
            ctx.exclude("element_outside_regular_domain")
            continue
        r = ref[1]
        if op.result == "vec":
            rsys, rst = obs.system_of(r), obs.stored(r)
            g = rows[j]
            if rsys == sysr:
                scale = R.scale_of(rst, g)
                # angles stored in phi may differ by the wrap; compare the Cartesian meaning when stored values differ
                if not all(opcheck.close(x, y, TOL, scale) for x, y in zip(g, rst)):
                    c1, c2 = R.to_cartesian(sysr, g), R.to_cartesian(rsys, rst)
                    if not opcheck.vec_close(c1, c2, TOL * 100, R.scale_of(c1, c2)):
                        fail("value", f"element {ipres}: array result {sysr}{opcheck.fmt(g)} != object result {opcheck.fmt(rst)}")
                        return
            else:
                c1, c2 = R.to_cartesian(sysr, g), R.to_cartesian(rsys, rst)
                if len(c1) != len(c2) or not opcheck.vec_close(c1, c2, mpf("1e-9"), R.scale_of(c1, c2)):
                    fail("value", f"element {ipres}: array result {sysr}{opcheck.fmt(g)} != object result {rsys}{opcheck.fmt(rst)}")
                    return
        elif op.result == "bool":
            if bool(vals[j]) != bool(r):
                m = None
                a = tuple(mpf(x) for x in elems[o.pair[j][0]]["a"]["c"][: cell["da"]])
                b = tuple(mpf(x) for x in elems[o.pair[j][1]]["b"]["c"][: cell["db"]]) if cell.get("db") else None
                try:
                    m = catalog.margin(op, a, b, opcheck.mp_scalars(o.per_elem[ipres]))
                except Exception:  # noqa: BLE001
                    m = None
                if m is not None and m < mpf("1e-9"):
                    ctx.exclude("decision_margin")
                    continue
                sub_rounding_tol = False
                if op.name == "isclose":
                    sp_ = o.per_elem[ipres]
                    sub_rounding_tol = mpf(sp_.get("atol", 0)) + mpf(sp_.get("rtol", 0)) * R.scale_of(a, b) < mpf("1e-11") * R.scale_of(a, b)
                if (op.name in ("equal", "not_equal") or sub_rounding_tol) and b is not None and cell["sa"] != cell.get("sb") and \
                        opcheck.vec_close(a, b, mpf("1e-12"), R.scale_of(a, b)):
                    # the same vector stored in two systems: exact equality is decided by the last bit of a conversion, which the
                    # scalar and the array kernels need not round alike
                    ctx.exclude("equality_within_rounding")
                    continue
                fail("value", f"element {ipres}: array result {vals[j]} != object result {r}")
                return
        else:
            x, y = vals[j], r
            if x is None:
                fail("value", f"element {ipres}: array result is None, object result {y}")
                return
            scale = R.scale_of(x, y, o.rows_a[o.pair[j][0]])
            ok = opcheck.close(x, y, TOL, scale)
            if not ok and op.result == "angle":
                ok = R.angle_close(x, y, TOL * scale)
            if not ok and op.name == "deltaangle":
                # acos is ill-conditioned at +-1: (anti)parallel operands agree in the cosine, and in the angle at sqrt(tol)
                import mpmath

                ok = opcheck.close(mpmath.cos(mpf(float(x))), mpmath.cos(mpf(float(y))), TOL, 1)
            if not ok:
                fail("value", f"element {ipres}: array result {x!r} != object result {y!r}")
                return
    distinct = len({tuple(e["a"]["c"]) for e in elems}) >= 2
    nonflat = cell["ka"] not in ("np1", "flat") or (cell.get("kb") not in (None, cell["ka"]))
    if distinct and nonflat:
        ctx.nontrivial(sample={"config": _desc(cell), "first_element": elems[0]})
    ctx.stratum(cell["ka"] + ("+" + cell["kb"] if cell.get("kb") else ""))
    ctx.evaluations -= 1


def describe(cell, case):
    return case
