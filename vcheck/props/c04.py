"""C04 - coordinate conversions and dimension changes lose nothing."""

from __future__ import annotations

import math
import zlib

import numpy
from hypothesis import strategies as st
from mpmath import mpf

from vcheck import build, gen, lattice, mpbackend, obs, opcheck, refmodel as R

import awkward as ak  # noqa: E402
import vector  # noqa: E402
from vector._methods import Momentum  # noqa: E402

PID = "C04"
SHRINK = False
EXHAUSTIVE = "20 source systems x 40 to_<system> methods x 4 backends x 2 flavors; every dimension pair of to_VectorND/to_ND/like x every keyword spelling"
RULE = (
    "Cells 'to' = source system (20) x to_<system> method (20 generic + 20 momentum spellings) x backend {object-mp, "
    "object-f64, numpy, awkward} x flavor; cells 'dim' = source system x {to_Vector2D/3D/4D, to_2D/3D/4D, like} x backend x "
    "flavor with every keyword spelling of the imputed coordinate (z/pz/theta/eta; t/e/E/energy/tau/m/M/mass; scalar and "
    "array-valued; default). One sub-case per stratum. Oracles: dimension, coordinate classes and flavor of the result as the "
    "method name says; same geometric vector (reference converters; mp 1e-40, f64 1e-9); target system == stored system => "
    "stored coordinates returned bit for bit; round trip A->B->A; projections keep the retained stored coordinates bit for bit "
    "with their classes; embeddings keep all stored coordinates bit for bit and add exactly the keyword value in the class the "
    "keyword names, else exactly 0 as z / t; to_<system> on a lower-dimensional vector imputes exactly the keyword value or 0; "
    "two keywords of one group -> TypeError. Non-trivial = source system != target system or a dimension change with a "
    "non-default keyword; distinct by (cell, input)."
)
ASSUMPTIONS = [
    "a source vector must be representable in the target system (rho>0 for theta/eta, t>=0 for tau); others are excluded and counted",
    "float64 same-vector and round-trip comparisons use the well-conditioned stratum at 1e-9",
]

GENERIC_TARGETS = {R.sysname(s).replace("_", ""): s for d in (2, 3, 4) for s in R.SYSTEMS[d]}
MOM_NAME = {"x": "px", "y": "py", "rho": "pt", "phi": "phi", "z": "pz", "theta": "theta", "eta": "eta", "t": "energy", "tau": "mass"}


def _targets():
    out = []
    for d in (2, 3, 4):
        for s in R.SYSTEMS[d]:
            names = R.coord_names(s)
            out.append(("to_" + "".join(names), s, {n: n for n in names}))
            mn = [MOM_NAME[n] for n in names]
            out.append(("to_" + "".join(mn), s, {n: MOM_NAME[n] for n in names}))
    return out


TARGETS = _targets()
BACKENDS = ("object-mp", "object-f64", "numpy", "awkward", "record")


def _single(be):
    """one vector per call: object vectors and single Awkward records"""
    return be.startswith("object") or be == "record"
L_KW = {"z": ("z", "z"), "pz": ("z", "z"), "theta": ("theta", "theta"), "eta": ("eta", "eta")}
T_KW = {"t": "t", "e": "t", "E": "t", "energy": "t", "tau": "tau", "m": "tau", "M": "tau", "mass": "tau"}


def reduce_candidates(cell, bundle):
    if len(bundle) > 1:
        for sub in bundle:
            yield [sub]


def cells(tier):
    out = []
    for d in (2, 3, 4):
        for sa in R.SYSTEMS[d]:
            for (mname, starget, kwnames) in TARGETS:
                for be in BACKENDS:
                    for fl in "gm":
                        if tier == "quick" and be in ("numpy", "awkward") and (zlib.crc32(f"{sa}{mname}{be}".encode()) % 2):
                            continue
                        if tier == "quick" and be == "record" and (zlib.crc32(f"{sa}{mname}{be}".encode()) % 4):
                            continue
                        out.append({"id": f"to|{d}{R.sysname(sa)}|{mname}|{be}|{fl}", "group": "to", "d": d, "sa": R.sysname(sa),
                                    "method": mname, "target": R.sysname(starget), "backend": be, "fa": fl})
            for m in ("to_Vector2D", "to_Vector3D", "to_Vector4D", "to_2D", "to_3D", "to_4D", "like"):
                for be in BACKENDS:
                    for fl in "gm":
                        out.append({"id": f"dim|{d}{R.sysname(sa)}|{m}|{be}|{fl}", "group": "dim", "d": d, "sa": R.sysname(sa),
                                    "method": m, "backend": be, "fa": fl})
    return out


def examples(cell, tier):
    return 1 if tier == "quick" else 8


def strategy(cell, tier):
    d = cell["d"]
    mp_ = cell["backend"] == "object-mp"
    strata = opcheck.STRATA_BY_DIM[d] if mp_ else ("moderate", "octant", "moderate")
    # keyword values: ordinary ones, exactly zero (a given zero is not "not given"), and negative ones
    parts = [st.fixed_dictionaries({"a": gen.vec((s,)), "kl": st.one_of(st.floats(0.2, 2.8), st.floats(0.2, 2.8), st.just(0.0)),
                                    "kt": st.one_of(st.floats(0.1, 30.0), st.floats(0.1, 30.0), st.just(0.0), st.floats(-5.0, -0.5)),
                                    "lspell": st.sampled_from(("z", "pz", "theta", "eta", None)),
                                    "tspell": st.sampled_from(("t", "e", "E", "energy", "tau", "m", "M", "mass", None)),
                                    "other_dim": st.sampled_from((2, 3, 4)), "other_sys": st.integers(0, 11),
                                    "other_mom": st.booleans(), "other_np": st.booleans()}) for s in strata]
    return st.tuples(*parts).map(list)


DTYPES = {"f64": numpy.float64, "f32": numpy.float32, "i64": numpy.int64}


def _dtype_of(cell):
    """stored column type of the array backends: float64 mostly, float32 and int64 (typical ntuple / integer data) too"""
    if cell["backend"] not in ("numpy", "awkward"):
        return "f64"
    return ("f64", "f32", "i64", "f64")[zlib.crc32(("dt" + cell["id"]).encode()) % 4]


def _cast_rows(rows, sa, dt):
    if dt == "f64":
        return rows
    out = []
    names = R.coord_names(sa)
    for r in rows:
        if dt == "f32":
            out.append(tuple(float(numpy.float32(x)) for x in r))
        else:
            q = []
            for nm, x in zip(names, r):
                k = int(round(float(x)))
                if nm == "rho":
                    k = max(1, abs(k))
                elif nm == "theta":
                    k = min(3, max(1, k))
                elif nm == "phi":
                    k = min(3, max(-3, k))
                elif nm in ("x", "y") and k == 0:
                    k = 1
                q.append(k)
            out.append(tuple(q))
    return out


def _make(be, sa, rows, mom, dt="f64", spell=None):
    if be == "object-mp":
        return [mpbackend.make(sa, r, mom, True) for r in rows]
    if be == "object-f64":
        return [mpbackend.make(sa, r, mom, False) for r in rows]
    if be == "numpy":
        return build.np_array(sa, rows, mom, dtype=DTYPES[dt])
    # momentum arrays also with the fields literally spelled px py pt pz and E/e/energy, mass/M/m (ak.zip + with_name)
    f = build.ak_flat(sa, rows, mom, "momentum" if (mom and spell is not None) else "generic", None, spell or 0, dtype=DTYPES[dt])
    if be == "record":
        return [f[i] for i in range(len(rows))]
    return ak.unflatten(f, [len(rows) - 1, 0, 1]) if len(rows) > 1 else f


def _read(be, r):
    """-> (system, rows, is_momentum, dim) of a result on any backend"""
    if be.startswith("object"):
        return obs.system_of(r), [tuple(obs.stored(r))], isinstance(r, Momentum), obs.dim_of(r)
    if be == "record" and lattice.classify(r) != "awkward-record":
        raise TypeError(f"a single record came back as {lattice.classify(r)}")
    system, rows = lattice.read_vector_rows(r)
    return system, rows, isinstance(r, Momentum), obs.dim_of(r)


def check_case(cell, bundle, ctx):
    # theta = 0 is the z axis itself (z = rho / tan 0): a zero keyword value is used for every other coordinate only
    theta_kw = cell.get("target", "").split("_")[1:2] == ["theta"] if cell.get("group") == "to" else False
    bundle = [dict(sub, kl=(0.5 if sub["kl"] == 0 and (theta_kw or sub.get("lspell") == "theta") else sub["kl"])) for sub in bundle]
    d = cell["d"]
    sa = opcheck.parse_system(cell["sa"])
    be = cell["backend"]
    mp_ = be == "object-mp"
    mom = cell["fa"] == "m"
    variant = f"{d}{cell['sa']}"
    tol = opcheck.MP_TOL if mp_ else opcheck.F64_TOL
    subs, rows, carts = [], [], []
    for sub in bundle:
        c = tuple(mpf(x) for x in sub["a"]["c"][:d])
        if not R.representable(sa, c):
            ctx.exclude("operand_not_representable")
            continue
        try:
            stv = R.from_cartesian(sa, c)
        except ZeroDivisionError:
            ctx.exclude("operand_not_representable")
            continue
        rows.append(stv if mp_ else tuple(float(x) for x in stv))
        subs.append(sub)
    if not subs:
        return
    dt = _dtype_of(cell)
    rows = _cast_rows(rows, sa, dt)
    if dt != "f64":
        tol = mpf("1e-5") if dt == "f32" else tol
    exact = [R.to_cartesian(sa, r) for r in rows]

    def fail(kind, msg):
        ctx.fail(kind, f"{cell['method']} on {variant} [{be}; {'momentum' if mom else 'generic'}]: {msg}", op=cell["method"],
                 variant=variant, backend=be)

    hsp = zlib.crc32(("spell" + cell["id"]).encode())
    vs = _make(be, sa, rows, mom, dt, spell=(hsp >> 1) % 3 if (mom and hsp % 2) else None)
    if be == "numpy" and (hsp >> 3) % 2:
        # arrays of vectors with more than one axis (keyword arrays of shape (n,) broadcast against (1, n))
        vs = vs.reshape(1, len(rows))
    groups = [(i, vs[i]) for i in range(len(rows))] if _single(be) else [(None, vs)]

    for gi, v in groups:
        idx = [gi] if gi is not None else list(range(len(rows)))
        s0 = subs[idx[0]]
        if cell["group"] == "to":
            _check_to(cell, ctx, fail, v, idx, subs, rows, exact, be, mp_, mom, tol, sa, d, s0)
        else:
            _check_dim(cell, ctx, fail, v, idx, subs, rows, exact, be, mp_, mom, tol, sa, d, s0)
    ctx.evaluations -= 1


def _kwvalue(be, mp_, val, n, as_array):
    if _single(be) or not as_array:
        return mpf(val) if mp_ else val
    if as_array == "shallow" and be == "awkward" and n > 1:
        # one value per list (e.g. per event), broadcast to the vectors inside it; the lists hold n-1, 0 and 1 vectors
        return ak.Array([val, val + 0.125, val + 0.25])
    arr = numpy.full(n, val) + numpy.arange(n) * 0.125
    if be == "awkward":
        return ak.unflatten(ak.Array(arr), [n - 1, 0, 1]) if n > 1 else ak.Array(arr)
    return arr


def _kw_elem(val, i, n, as_array, be):
    if _single(be) or not as_array:
        return val
    if as_array == "shallow" and be == "awkward" and n > 1:
        return float(val) if i < n - 1 else float(val + 0.25)
    return float(val + i * 0.125)


def _shape_kwargs(be, v, kwargs):
    """keyword arrays take the shape of a NumPy operand with more than one axis (how a (n,) keyword array combines with a
    (1, n) array of vectors is not the property's subject)"""
    if be == "numpy" and getattr(v, "ndim", 1) > 1:
        for k_, val_ in list(kwargs.items()):
            if isinstance(val_, numpy.ndarray) and val_.ndim == 1:
                kwargs[k_] = val_.reshape(v.shape)


def _check_to(cell, ctx, fail, v, idx, subs, rows, exact, be, mp_, mom, tol, sa, d, s0):
    target = opcheck.parse_system(cell["target"])
    td = len(target) + 1
    mname = cell["method"]
    momentum_spelled = mname not in ("to_" + "".join(R.coord_names(target)),) or False
    names = R.coord_names(target)
    kwn = {n: (MOM_NAME[n] if mname != "to_" + "".join(names) else n) for n in names}
    # phi/theta/eta keep their names in momentum spellings
    kwargs, imputed = {}, {}
    n = len(idx)
    as_array = (zlib.crc32(cell["id"].encode()) % 2 == 0)
    if as_array and be == "awkward" and (zlib.crc32(cell["id"].encode()) >> 7) % 2:
        as_array = "shallow"
    use_kw = (zlib.crc32(cell["id"].encode()) >> 3) % 3 != 0
    if td >= 3 and d < 3:
        lname = target[1]
        if use_kw:
            kwargs[kwn[lname]] = _kwvalue(be, mp_, s0["kl"], n, as_array)
            imputed[lname] = ("kw", s0["kl"])
        else:
            imputed[lname] = ("default", 0.0)
    if td == 4 and d < 4:
        tname = target[2]
        if use_kw:
            kwargs[kwn[tname]] = _kwvalue(be, mp_, s0["kt"], n, as_array)
            imputed[tname] = ("kw", s0["kt"])
        else:
            imputed[tname] = ("default", 0.0)
    # the source must be representable in the target system
    ok = []
    k = min(d, td)
    for i in idx:
        # only coordinate groups that are converted (not imputed, not dropped) constrain representability
        ok.append(R.representable(target[: k - 1], exact[i][:k]))
    if not all(ok):
        ctx.exclude("not_representable_in_target")
        return
    ctx.evaluation(len(idx))
    try:
        _shape_kwargs(be, v, kwargs)
        r = getattr(v, mname)(**kwargs)
    except ZeroDivisionError:
        ctx.exclude("singular")
        return
    except Exception as e:  # noqa: BLE001
        fail("exception", f"raised {type(e).__name__}: {e!s:.300} (kwargs {list(kwargs)})")
        return
    try:
        sysr, rrows, rmom, rdim = _read(be, r)
        if be == "numpy" and getattr(r, "shape", None) != v.shape:
            fail("structure", f"result has shape {getattr(r, 'shape', None)}, the operand array has shape {v.shape}")
            return
    except Exception as e:  # noqa: BLE001
        fail("result_type", f"result {type(r).__name__} is not a readable vector: {e!r}")
        return
    if rdim != td or sysr != target:
        fail("target", f"result is {rdim}D {sysr}, the method name says {td}D {target}")
        return
    if rmom != mom:
        fail("flavor", f"result flavor {'momentum' if rmom else 'generic'} ({type(r).__name__})")
        return
    if len(rrows) != len(idx):
        fail("structure", f"{len(rrows)} result elements for {len(idx)} operands")
        return
    for j, i in enumerate(idx):
        got = rrows[j]
        src = rows[i]
        # (3) identity
        if target == sa:
            if not all((a == b) or (a != a and b != b) for a, b in zip(got, src)):
                fail("identity", f"converting to the stored system changed the coordinates: {opcheck.fmt(src)} -> {opcheck.fmt(got)}")
                return
        # (6) imputed coordinates hold exactly the keyword value / 0
        for cname, (how, val) in imputed.items():
            pos = names.index(cname)
            want = _kw_elem(val, j, len(idx), as_array if how == "kw" else False, be)
            if float(got[pos]) != float(want):
                fail("imputed", f"imputed {cname} is {got[pos]!r}, keyword value was {want!r} ({how})")
                return
        # (2) same geometric vector on the shared dimensions
        k = min(d, td)
        cg = R.to_cartesian(sysr, got)
        if subs[i]["a"]["stratum"] in ("moderate",) or mp_:
            same = opcheck.vec_close(cg[:k], exact[i][:k], tol, R.scale_of(exact[i]), k)
            if not same and td <= d:
                # t recovered from tau next to t = 0 (or z from an angle next to the axis) is ill-conditioned: the result
                # also denotes the source when its own stored coordinates are the converted source coordinates
                same = opcheck.vec_equiv(sysr, got, exact[i][:k], tol, R.scale_of(exact[i]))
            if not same:
                fail("value", f"result {sysr}{opcheck.fmt(got)} = {opcheck.fmt(cg[:k])} does not denote the source vector "
                     f"{opcheck.fmt(exact[i][:k])} (stored {opcheck.fmt(src)})")
                return
    # (4) round trip back to the source system (same dimension only)
    if td == d and (mp_ or all(subs[i]["a"]["stratum"] == "moderate" for i in idx)):
        back_name = "to_" + "".join(R.coord_names(sa))
        try:
            rb = getattr(r, back_name)()
        except ZeroDivisionError:
            ctx.exclude("singular")
            return
        except Exception as e:  # noqa: BLE001
            fail("exception", f"round trip {back_name} raised {type(e).__name__}: {e!s:.200}")
            return
        sysb, brows, _, _ = _read(be, rb)
        if sysb != sa:
            fail("target", f"round trip came back in {sysb}")
            return
        for j, i in enumerate(idx):
            cb = R.to_cartesian(sysb, brows[j])
            if not opcheck.vec_close(cb, exact[i], tol * 4, R.scale_of(exact[i])) and \
                    not opcheck.vec_equiv(sysb, brows[j], exact[i], tol * 4, R.scale_of(exact[i])):
                fail("roundtrip", f"{variant} -> {cell['target']} -> back gives {opcheck.fmt(cb)} != {opcheck.fmt(exact[i])}")
                return
    # (7) Awkward arrays and records let a stored field be replaced in place (v["pt"] = v.pt * c): a conversion after the
    # replacement is the conversion of a freshly assembled array with the new column, whatever was read before
    if be in ("awkward", "record"):
        import copy

        w = copy.copy(v)
        f0 = ak.fields(w)[0]
        try:
            _ = getattr(w, mname)(**kwargs)
            _ = (w.x, w.rho, w.phi)
            w[f0] = w[f0] * 1.5
            r2 = getattr(w, mname)(**kwargs)
            cols = {f: w[f] for f in ak.fields(w)}
            name = ak.to_layout(w).purelist_parameter("__record__")
            fresh = ak.zip(cols, with_name=name, behavior=w.behavior) if be == "awkward" else ak.Record(cols, with_name=name, behavior=w.behavior)
            r3 = getattr(fresh, mname)(**kwargs)
            got2, got3 = _read(be, r2), _read(be, r3)
        except ZeroDivisionError:
            got2 = got3 = None
        except Exception as e:  # noqa: BLE001
            fail("exception", f"conversion after replacing field {f0!r} in place raised {type(e).__name__}: {e!s:.300}")
            return
        ctx.evaluation()
        if got2 is not None and repr(got2) != repr(got3):
            fail("stale_after_field_replacement", f"after reading coordinates and then replacing the stored field {f0!r} in place "
                 f"({f0} * 1.5), {mname}() gives {str(got2[1][:2])[:200]} but the same call on a freshly assembled array with the "
                 f"same fields gives {str(got3[1][:2])[:200]}")
            return
    if target != sa:
        for i in idx:
            ctx.nontrivial(key=[cell["id"], [float(x) for x in rows[i]], sorted(kwargs)], sample={"stored": [float(x) for x in rows[i]], "kwargs": sorted(kwargs)})


def _check_dim(cell, ctx, fail, v, idx, subs, rows, exact, be, mp_, mom, tol, sa, d, s0, other_dim=None):
    m = cell["method"]
    n = len(idx)
    h = zlib.crc32(cell["id"].encode())
    as_array = h % 2 == 0
    if as_array and be == "awkward" and (h >> 7) % 2:
        as_array = "shallow"
    if m == "like" and other_dim is None:
        # every target dimension; the other vector in a generated stored system, flavor and backend - like() takes the
        # dimension from it and nothing else (imputed coordinates are z = 0, t = 0 whatever the other vector stores)
        for k, td in enumerate((2, 3, 4)):
            _check_dim(cell, ctx, fail, v, idx, subs, rows, exact, be, mp_, mom, tol, sa, d, subs[idx[k % len(idx)]], other_dim=td)
        return
    if m == "like":
        td = other_dim
        osys = R.SYSTEMS[td][s0.get("other_sys", 0) % len(R.SYSTEMS[td])]
        ocart = tuple(mpf(1.5 + k) for k in range(td))
        ostored = tuple(float(x) for x in R.from_cartesian(osys, ocart))
        if s0.get("other_np"):
            other = build.make("numpy", osys, [ostored] * (n if be == "numpy" else 1), momentum=bool(s0.get("other_mom")))
        else:
            other = mpbackend.make(osys, ostored, bool(s0.get("other_mom")), False)
        call = lambda **kw: v.like(other)  # noqa: E731
        kwargs = {}
    else:
        td = int(m[-2])
        call = lambda **kw: getattr(v, m)(**kw)  # noqa: E731
        kwargs = {}
    exp_sys = list(sa[: td - 1])
    add = {}
    if td > d and m != "like":
        if d < 3 <= td and s0["lspell"]:
            kwargs[s0["lspell"]] = _kwvalue(be, mp_, s0["kl"], n, as_array)
            add["l"] = (L_KW[s0["lspell"]][0], s0["kl"], True)
        if td == 4 and s0["tspell"]:
            kwargs[s0["tspell"]] = _kwvalue(be, mp_, s0["kt"], n, as_array)
            add["t"] = (T_KW[s0["tspell"]], s0["kt"], True)
    if td > d:
        if d < 3 <= td:
            exp_sys.append(add["l"][0] if "l" in add else "z")
        if td == 4:
            exp_sys.append(add["t"][0] if "t" in add else "t")
    exp_sys = tuple(exp_sys)
    ctx.evaluation(n)
    try:
        _shape_kwargs(be, v, kwargs)
        r = call(**kwargs)
    except Exception as e:  # noqa: BLE001
        fail("exception", f"{m}({list(kwargs)}) raised {type(e).__name__}: {e!s:.300}")
        return
    try:
        sysr, rrows, rmom, rdim = _read(be, r)
        if be == "numpy" and getattr(r, "shape", None) != v.shape:
            fail("structure", f"result has shape {getattr(r, 'shape', None)}, the operand array has shape {v.shape}")
            return
    except Exception as e:  # noqa: BLE001
        fail("result_type", f"result {type(r).__name__} is not a readable vector: {e!r}")
        return
    if rdim != td or sysr != exp_sys:
        fail("target", f"{m}({list(kwargs)}): result is {rdim}D {sysr}, expected {td}D {exp_sys}")
        return
    if rmom != mom:
        fail("flavor", f"{m}: result flavor changed ({type(r).__name__})")
        return
    if len(rrows) != n:
        fail("structure", f"{len(rrows)} result elements for {n} operands")
        return
    for j, i in enumerate(idx):
        got, src = rrows[j], rows[i]
        keep = min(d, td)
        if not all((float(a) == float(b)) or (a != a and b != b) for a, b in zip(got[:keep], src[:keep])):
            fail("retained", f"{m}: retained stored coordinates changed: {opcheck.fmt(src[:keep])} -> {opcheck.fmt(got[:keep])}")
            return
        pos = keep
        if td > d:
            if d < 3 <= td:
                want = _kw_elem(add["l"][1], j, n, as_array, be) if "l" in add else 0.0
                if float(got[pos]) != float(want):
                    fail("imputed", f"{m}({list(kwargs)}): longitudinal coordinate is {got[pos]!r}, expected exactly {want!r}")
                    return
                pos += 1
            if td == 4:
                want = _kw_elem(add["t"][1], j, n, as_array, be) if "t" in add else 0.0
                if float(got[pos]) != float(want):
                    fail("imputed", f"{m}({list(kwargs)}): temporal coordinate is {got[pos]!r}, expected exactly {want!r}")
                    return
    # (7) two keywords of one group -> TypeError
    if m != "like" and td > d:
        bad = []
        if d < 3 <= td:
            bad.append({"z": 1.0, "theta": 0.5})
            bad.append({"pz": 1.0, "eta": 0.5})
        if td == 4:
            bad.append({"t": 1.0, "tau": 0.5})
            bad.append({"energy": 1.0, "M": 0.5})
            bad.append({"e": 1.0, "E": 0.5})
        for kw in bad:
            try:
                getattr(v, m)(**kw)
            except TypeError:
                continue
            except Exception as e:  # noqa: BLE001
                fail("conflict", f"{m}({kw}) raised {type(e).__name__} instead of TypeError")
                return
            fail("conflict", f"{m}({kw}) accepted two coordinates of one group")
            return
    if td != d and kwargs:
        for i in idx:
            ctx.nontrivial(key=[cell["id"], [float(x) for x in rows[i]], sorted(kwargs)], sample={"stored": [float(x) for x in rows[i]], "kwargs": sorted(kwargs), "to": td})


def describe(cell, case):
    return case
