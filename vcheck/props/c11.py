"""C11 - vector-space, dot, cross and unit-vector laws; norm functions on every backend."""

from __future__ import annotations

import math
import zlib

import mpmath
import numpy
from hypothesis import strategies as st
from mpmath import mpf

from vcheck import build, gen, laws, obs, opcheck, refmodel as R
from vcheck.laws import Env, Skip

PID = "C11"
SHRINK = False
RULE = (
    "Cells = law x dimension x stored systems of the operands (all 4/36/144 pairings for binary laws; the third operand's "
    "system chosen by a hash) x flavor x tier {mp, f64}; plus norm-function cells x backend {object, numpy, awkward}. Laws: "
    "a+b=b+a; (a+b)+c=a+(b+c); (a+b)-b=a; s(a+b)=sa+sb; s(ta)=(st)a; -a=a.scale(-1)=negND; dot symmetric, bilinear, "
    "v.v=rho2|mag2|tau2; cross antisymmetric, bilinear, orthogonal to both factors, |a x b|^2=|a|^2|b|^2-(a.b)^2; unit() has "
    "norm 1 and unit*|norm| = v; abs(v), v**2, numpy.sqrt/cbrt/power(v,n) = f(norm). Methods and operators (+ - * / @ unary-) "
    "are both exercised. One sub-case per stratum; factors of both signs. Non-trivial = operands not all stored in the same "
    "system and no zero component; distinct by (cell, input)."
)
ASSUMPTIONS = [
    "results not representable in the returned system (tau storage with t<0 after subtraction / negative scaling) are excluded and counted",
    "numpy.sqrt/cbrt/power embed float64 literals (**0.25, **0.1666...) and are compared at 1e-12 relative in float64 only",
]


def reduce_candidates(cell, bundle):
    if len(bundle) > 1:
        for sub in bundle:
            yield [sub]


def _h(key, seq):
    return seq[zlib.crc32(key.encode()) % len(seq)]


BIN_LAWS = ("commutative", "sub_inverse", "distributive", "dot_symmetric")
TRI_LAWS = ("associative", "dot_bilinear")
UN_LAWS = ("scale_compose", "negation", "self_dot", "unit")
CROSS_LAWS = ("cross_antisym", "cross_orthogonal_lagrange", "cross_bilinear")


def cells(tier):
    out = []

    def add(law, d, sa, sb=None, flavor="gg"):
        for mode in ("mp", "f64"):
            cid = f"{law}|{d}{R.sysname(sa)}|{R.sysname(sb) if sb else ''}|{flavor}|{mode}"
            out.append({"id": cid, "law": law, "d": d, "sa": R.sysname(sa), "sb": R.sysname(sb) if sb else None,
                        "flavor": flavor, "mode": mode})

    for d in (2, 3, 4):
        S = R.SYSTEMS[d]
        for i, sa in enumerate(S):
            for law in UN_LAWS:
                add(law, d, sa, None, "g" if i % 2 else "m")
            for j, sb in enumerate(S):
                fl = ("gg", "gm", "mg", "mm")[(i + j) % 4]
                for law in BIN_LAWS:
                    # (a hash, not (i + j) % 2: the systems alternate t / tau, and parity would drop exactly the mixed pairs)
                    if tier == "quick" and d == 4 and law in ("sub_inverse", "distributive") and zlib.crc32(f"{law}{i},{j}".encode()) % 2:
                        continue
                    add(law, d, sa, sb, fl)
                if tier == "thorough" or d < 4 or (i + 2 * j) % 3 == 0:
                    for law in TRI_LAWS:
                        add(law, d, sa, sb, fl)
                if d == 3:
                    for law in CROSS_LAWS:
                        add(law, d, sa, sb, fl)
    for d in (2, 3, 4):
        for sa in R.SYSTEMS[d]:
            for be in ("object", "numpy", "awkward"):
                for fl in ("g", "m"):
                    out.append({"id": f"normfunc|{d}{R.sysname(sa)}|{be}|{fl}", "law": "normfunc", "d": d, "sa": R.sysname(sa),
                                "sb": None, "flavor": fl, "mode": "f64", "backend": be})
    return out


def examples(cell, tier):
    if tier == "quick":
        return 1 if cell["mode"] == "mp" else 2
    return 10


def strategy(cell, tier):
    f64 = cell["mode"] == "f64"
    d = cell["d"]
    strata = ("moderate",) * 3 if f64 else opcheck.STRATA_BY_DIM[d]
    allb = ("moderate",) if f64 else opcheck.STRATA_BY_DIM[d]
    if cell.get("law") == "normfunc" and d == 4:
        # the 4D norm is signed: space-like vectors exercise the negative branch of abs/square/power
        strata = ("moderate", "spacelike", "octant", "spacelike")
    parts = []
    for s in strata:
        parts.append(st.fixed_dictionaries({
            "a": gen.vec((s,)), "b": gen.vec(allb), "c": gen.vec(allb), "s": gen.factor(), "t": gen.factor(),
            "n": st.sampled_from((3, 0.5, -1, 2.5, 1, 0, -2)), "rel": st.sampled_from(("independent", "equal", "scaled"))}))
    return st.tuples(*parts).map(list)


def _operands(sub, d):
    a = sub["a"]["c"][:d]
    b = sub["b"]["c"][:d]
    if sub["rel"] == "equal":
        b = list(a)
    elif sub["rel"] == "scaled":
        b = [x * -1.5 for x in a]
    return a, b, sub["c"]["c"][:d]


def check_sub(cell, sub, ctx):
    law, d = cell["law"], cell["d"]
    if law == "normfunc":
        return _normfunc(cell, sub, ctx)
    mp_ = cell["mode"] == "mp"
    sa = opcheck.parse_system(cell["sa"])
    sb = opcheck.parse_system(cell["sb"]) if cell["sb"] else None
    fl = cell["flavor"]
    env = Env(ctx, cell, mp_, law, f"{d}{cell['sa']}|{cell['sb'] or ''}|{fl}")
    ctx.stratum(sub["a"]["stratum"])
    a, b, c = _operands(sub, d)
    ac, bc, cc = (tuple(mpf(x) for x in v) for v in (a, b, c))
    A = env.vec(sa, a, momentum=fl[0] == "m")
    s, t = env.num(sub["s"]), env.num(sub["t"])
    sm, tm = mpf(sub["s"]), mpf(sub["t"])
    sca, scb, scc = R.scale_of(ac), R.scale_of(bc), R.scale_of(cc)

    def rep(v, ref):
        env.check_representable(v, ref)
        return v

    nontrivial = opcheck.nonzero_components(ac, bc)
    if sb is not None:
        B = env.vec(sb, b, momentum=fl[1] == "m")
        nontrivial = nontrivial and sa != sb
    if law == "commutative":
        r1 = rep(env.call("add", lambda: A.add(B)), R.add(ac, bc))
        r2 = rep(env.call("add", lambda: B.add(A)), R.add(ac, bc))
        env.eq_vec("a+b = b+a", r1, r2, sca + scb, 8)
        r3 = rep(env.call("+", lambda: A + B), R.add(ac, bc))
        env.eq_vec("a+b (operator) = a.add(b)", r3, r1, sca + scb, 8)
    elif law == "sub_inverse":
        r1 = rep(env.call("add", lambda: A.add(B)), R.add(ac, bc))
        r2 = rep(env.call("subtract", lambda: r1.subtract(B)), ac)
        env.eq_cart("(a+b)-b = a", env.cart(r2), ac, sca + scb, 16)
        r3 = rep(env.call("-", lambda: (A + B) - B), ac)
        env.eq_cart("(a+b)-b = a (operators)", env.cart(r3), ac, sca + scb, 16)
        # the difference itself, in both orders (its time component has either sign)
        dab, dba = R.subtract(ac, bc), R.subtract(bc, ac)
        d1 = env.call("subtract", lambda: A.subtract(B))
        if not mp_ and d >= 3 and obs.system_of(d1)[1] in ("theta", "eta") and R.rho2(dab) < (mpf("1e-3") * (sca + scb)) ** 2:
            # float64: a difference that cancels onto the z axis is ill-conditioned in theta / eta storage
            raise Skip("ill_conditioned_f64")
        env.check_representable(d1, dab, "subtract")
        env.eq_cart("a-b = a + (-1)b", env.cart(d1), dab, sca + scb, 16)
        back = rep(env.call("add", lambda: d1.add(B)), ac)
        env.eq_cart("(a-b)+b = a", env.cart(back), ac, sca + scb, 16)
        d2 = env.call("subtract", lambda: B.subtract(A))
        env.check_representable(d2, dba, "subtract")
        env.eq_cart("b-a = -(a-b)", env.cart(d2), dba, sca + scb, 16)
        d3 = env.call("-", lambda: A - B)
        env.check_representable(d3, dab, "subtract")
        env.eq_vec("a-b (operator) = a.subtract(b)", d3, d1, sca + scb, 8)
    elif law == "distributive":
        r1 = rep(env.call("add", lambda: A.add(B)), R.add(ac, bc))
        l = rep(env.call("scale", lambda: r1.scale(s)), R.scale(R.add(ac, bc), sm))
        sA = rep(env.call("scale", lambda: A.scale(s)), R.scale(ac, sm))
        sB = rep(env.call("scale", lambda: B.scale(s)), R.scale(bc, sm))
        r = rep(env.call("add", lambda: sA.add(sB)), R.scale(R.add(ac, bc), sm))
        env.eq_vec("s(a+b) = sa+sb", l, r, (sca + scb) * abs(sm), 16)
        r2 = rep(env.call("*", lambda: s * A + B * s), R.scale(R.add(ac, bc), sm))
        env.eq_vec("s*a + b*s = s(a+b)", r2, l, (sca + scb) * abs(sm), 16)
    elif law == "dot_symmetric":
        x = env.call("dot", lambda: A.dot(B))
        y = env.call("dot", lambda: B.dot(A))
        env.eq_num("a.b = b.a", x, y, sca * scb, 8)
        z = env.call("@", lambda: A @ B)
        env.eq_num("a@b = a.dot(b)", z, x, sca * scb, 8)
        env.eq_num("a.b = definition", x, R.dot(ac, bc), sca * scb, 16)
    elif law == "associative":
        sc_ = _h(cell["id"], R.SYSTEMS[d])
        C = env.vec(sc_, c)
        ab = rep(env.call("add", lambda: A.add(B)), R.add(ac, bc))
        l = rep(env.call("add", lambda: ab.add(C)), R.add(R.add(ac, bc), cc))
        bcv = rep(env.call("add", lambda: B.add(C)), R.add(bc, cc))
        r = rep(env.call("add", lambda: A.add(bcv)), R.add(R.add(ac, bc), cc))
        env.eq_vec("(a+b)+c = a+(b+c)", l, r, sca + scb + scc, 16)
    elif law == "dot_bilinear":
        sc_ = _h(cell["id"], R.SYSTEMS[d])
        C = env.vec(sc_, c)
        ab = rep(env.call("add", lambda: A.add(B)), R.add(ac, bc))
        l = env.call("dot", lambda: ab.dot(C))
        r = env.call("dot", lambda: A.dot(C)) + env.call("dot", lambda: B.dot(C))
        env.eq_num("(a+b).c = a.c + b.c", l, r, (sca + scb) * scc, 16)
        sA = rep(env.call("scale", lambda: A.scale(s)), R.scale(ac, sm))
        env.eq_num("(sa).b = s(a.b)", env.call("dot", lambda: sA.dot(B)), s * env.call("dot", lambda: A.dot(B)),
                   sca * scb * abs(sm), 16)
    elif law == "scale_compose":
        tA = rep(env.call("scale", lambda: A.scale(t)), R.scale(ac, tm))
        l = rep(env.call("scale", lambda: tA.scale(s)), R.scale(ac, sm * tm))
        st_ = (sm * tm) if mp_ else sub["s"] * sub["t"]
        r = rep(env.call("scale", lambda: A.scale(st_)), R.scale(ac, sm * tm))
        env.eq_vec("s(ta) = (st)a", l, r, sca * abs(sm * tm), 16)
        q = rep(env.call("/", lambda: A / s), R.scale(ac, 1 / sm))
        env.eq_cart("a/s = a.scale(1/s)", env.cart(q), R.scale(ac, 1 / sm), sca / abs(sm), 16)
        nontrivial = opcheck.nonzero_components(ac)
    elif law == "negation":
        ref = R.scale(ac, -1)
        n1 = rep(env.call("-a", lambda: -A), ref)
        n2 = rep(env.call("scale", lambda: A.scale(-1)), ref)
        n3 = rep(env.call("neg", lambda: getattr(A, f"neg{d}D")), ref)
        env.eq_vec("-a = a.scale(-1)", n1, n2, sca, 8)
        env.eq_vec(f"neg{d}D = a.scale(-1)", n3, n2, sca, 8)
        env.eq_cart("-a = definition", env.cart(n1), ref, sca, 8)
        p = env.call("+a", lambda: +A)
        env.eq_cart("+a = a", env.cart(p), ac, sca, 8)
        # the results are vectors like any other: their norm is |a| (never negative in 2D / 3D) and their unit vector is
        # parallel to them - whatever sign conventions the stored coordinates of a negated vector use
        nmn = {2: "rho", 3: "mag", 4: "tau"}[d]
        nrm = R.norm(ac)
        nref = R.norm(ref)
        cond = (sca / abs(nrm)) ** 2 if nrm != 0 else None
        if cond is not None and abs(nrm) > mpf("1e-9") * sca and (mp_ or cond < 1e4):
            for what, vneg in (("-a", n1), ("a.scale(-1)", n2), (f"neg{d}D", n3), ("a.scale(s), s<0", env.call("scale", lambda: A.scale(-abs(s))))):
                target = nref if "s<0" not in what else R.norm(R.scale(ac, -abs(sm)))
                tcart = ref if "s<0" not in what else R.scale(ac, -abs(sm))
                env.eq_num(f"{nmn} of {what} = norm of the negated vector", env.call(nmn, lambda v=vneg: getattr(v, nmn)), target, sca * max(1, abs(sm)), 16 * cond)
                env.eq_num(f"abs({what}) = norm", env.call("abs", lambda v=vneg: abs(v)), target, sca * max(1, abs(sm)), 16 * cond)
                if d < 4 or R.tau2(tcart) > mpf("1e-3") * R.scale_of(tcart) ** 2:
                    U = env.call("unit", lambda v=vneg: v.unit())
                    env.eq_cart(f"unit({what})*|norm| = {what}", R.scale(env.cart(U), abs(target)), tcart, sca * max(1, abs(sm)), 16 * cond)
        nontrivial = opcheck.nonzero_components(ac)
    elif law == "self_dot":
        x = env.call("dot", lambda: A.dot(A))
        nm = {2: "rho2", 3: "mag2", 4: "tau2"}[d]
        env.eq_num(f"v.v = {nm}", x, env.call(nm, lambda: getattr(A, nm)), sca * sca, 16)
        nontrivial = opcheck.nonzero_components(ac)
    elif law == "unit":
        nrm = R.norm(ac)
        if nrm == 0 or abs(nrm) < mpf("1e-9") * sca:
            raise Skip("zero_norm")
        cond = (sca / abs(nrm)) ** 2
        if not mp_ and cond > 1e4:
            raise Skip("ill_conditioned_f64")
        U = rep(env.call("unit", lambda: A.unit()), R.unit(ac))
        nmn = {2: "rho", 3: "mag", 4: "tau"}[d]
        got = env.call(nmn, lambda: getattr(U, nmn))
        env.eq_num("norm(unit(v)) = 1", abs(mpf(got)), 1, 1, 16 * cond)
        env.eq_cart("unit(v)*|norm| = v", R.scale(env.cart(U), abs(nrm)), ac, sca, 16 * cond)
        nontrivial = opcheck.nonzero_components(ac)
    elif law == "cross_antisym":
        ref = R.cross(ac, bc)
        x = rep(env.call("cross", lambda: A.cross(B)), ref)
        y = rep(env.call("cross", lambda: B.cross(A)), R.scale(ref, -1))
        env.eq_cart("a x b = -(b x a)", env.cart(x), R.scale(env.cart(y), -1), sca * scb, 16)
        env.eq_cart("a x b = definition", env.cart(x), ref, sca * scb, 16)
    elif law == "cross_orthogonal_lagrange":
        ref = R.cross(ac, bc)
        x = rep(env.call("cross", lambda: A.cross(B)), ref)
        env.eq_num("(a x b).a = 0", env.call("dot", lambda: x.dot(A)), 0, sca * sca * scb, 32)
        env.eq_num("(a x b).b = 0", env.call("dot", lambda: x.dot(B)), 0, sca * scb * scb, 32)
        lhs = env.call("mag2", lambda: x.mag2)
        rhs = env.call("mag2", lambda: A.mag2) * env.call("mag2", lambda: B.mag2) - env.call("dot", lambda: A.dot(B)) ** 2
        env.eq_num("|a x b|^2 = |a|^2|b|^2 - (a.b)^2", lhs, rhs, (sca * scb) ** 2, 64)
    elif law == "cross_bilinear":
        sc_ = _h(cell["id"], R.SYSTEMS[3])
        C = env.vec(sc_, c)
        ab = rep(env.call("add", lambda: A.add(B)), R.add(ac, bc))
        l = rep(env.call("cross", lambda: ab.cross(C)), R.cross(R.add(ac, bc), cc))
        r1 = rep(env.call("cross", lambda: A.cross(C)), R.cross(ac, cc))
        r2 = rep(env.call("cross", lambda: B.cross(C)), R.cross(bc, cc))
        r = env.call("add", lambda: r1.add(r2))
        env.eq_vec("(a+b) x c = a x c + b x c", l, r, (sca + scb) * scc, 32)
    else:
        raise KeyError(law)
    return nontrivial


def _normfunc(cell, sub, ctx):
    d = cell["d"]
    sa = opcheck.parse_system(cell["sa"])
    be = cell["backend"]
    mom = cell["flavor"] == "m"
    a = sub["a"]["c"][:d]
    ac = tuple(mpf(x) for x in a)
    if not R.representable(sa, ac):
        raise Skip("operand_not_representable")
    row = tuple(float(x) for x in R.from_cartesian(sa, ac))
    exact = R.to_cartesian(sa, row)
    nrm = R.norm(exact)
    n2 = {2: R.rho2, 3: R.mag2, 4: R.tau2}[d](exact)
    sc = R.scale_of(exact)
    if d == 4 and abs(n2) < mpf("1e-3") * sc * sc:
        raise Skip("ill_conditioned_f64")
    v = build.make(be, sa, [row, row], mom)
    if be == "object":
        v = v[0]
    n = sub["n"]

    def first(x):
        return build.to_list(x)[0]

    def chk(what, got, want, rel=mpf("1e-9")):
        got = first(got)
        if not obs.finite(want):
            return
        if isinstance(got, complex) or got is None:
            ctx.fail("law", f"normfunc {what}: got {got!r}", op="normfunc", variant=f"{d}{cell['sa']}", backend=be)
            return
        g = mpf(float(got))
        if mpmath.isnan(g) and (isinstance(want, mpf) and mpmath.isnan(want)):
            return
        if not opcheck.close(g, want, rel, max(1, abs(want))):
            ctx.fail("law", f"normfunc [{d}{cell['sa']}; {be}; {'momentum' if mom else 'generic'}]: {what} = {got!r} but "
                     f"f(norm) = {opcheck.fmt(want)} for stored {row}", op="normfunc:" + what.split("(")[0], variant=f"{d}{cell['sa']}",
                     backend=be)

    try:
        chk("abs(v)", abs(v), nrm)
        chk("v**2", v**2, n2)
        chk("numpy.absolute(v)", numpy.absolute(v), nrm)
        chk("numpy.square(v)", numpy.square(v), n2)
        if n2 > 0:
            chk("numpy.sqrt(v)", numpy.sqrt(v), mpmath.sqrt(abs(nrm)))
            chk("numpy.cbrt(v)", numpy.cbrt(v), mpmath.cbrt(abs(nrm)))
            if nrm > 0 and (n >= 0 or nrm > mpf("1e-6")):
                chk(f"numpy.power(v,{n})", numpy.power(v, n), nrm ** mpf(n))
                chk(f"v**{n}", v**n, nrm ** mpf(n))
        elif n2 < 0 and isinstance(n, int) and nrm < -mpf("1e-6"):
            # space-like: the norm tau is negative; integer powers of it are still real functions of the norm
            chk(f"numpy.power(v,{n})", numpy.power(v, n), nrm ** n)
            chk(f"v**{n}", v**n, nrm ** n)
    except ZeroDivisionError:
        raise Skip("singular") from None
    except Exception as e:  # noqa: BLE001
        from vcheck.findings import Violation

        if isinstance(e, Violation):
            raise
        ctx.fail("exception", f"normfunc [{d}{cell['sa']}; {be}] raised {e!r} for stored {row} n={n}", op="normfunc",
                 variant=f"{d}{cell['sa']}", backend=be)
    return sa != opcheck.CART[d] or mom


def check_case(cell, bundle, ctx):
    laws.run_bundle(check_sub, cell, bundle, ctx)


def describe(cell, case):
    return case
