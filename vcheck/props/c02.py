"""C02 - every operation computes its documented mathematical definition.

Oracle: the independent 60-digit reference model (vcheck/refmodel.py).  Tiers: mp object
backend (1e-40), float64 object backend and float64 NumPy backend (1e-9 on the
well-conditioned stratum, reference evaluated on the exact binary stored inputs)."""

from __future__ import annotations

import math
import zlib

import mpmath
import numpy
from mpmath import mpf

from vcheck import build, catalog, gen, obs, opcheck, refmodel as R
from vcheck.catalog import OPS
from vcheck.opcheck import CART, CallRaised

SHRINK = False


def reduce_candidates(cell, bundle):
    if len(bundle) > 1:
        for sub in bundle:
            yield [sub]


PID = "C02"
RULE = (
    "Cells = every catalogued operation (accessors, momentum accessors, unary/scalar-argument/binary methods, all 12 Euler "
    "orders) x operand dimensions x signature (60-digit tier: every signature; float64 tiers: all-Cartesian plus 3 "
    "deterministic pseudo-random signatures per operation in quick, all in thorough) x tier {mp object, f64 object, f64 NumPy array, f64 Awkward array}. One generated case "
    "is a bundle with one sub-case per stratum (mp: all regular strata; f64: well-conditioned stratum); operands are canonical "
    "Cartesian values expressed in the cell's stored systems by the reference converters. The result is read back as stored "
    "coordinates + coordinate classes, converted with the reference converters and compared with the reference definition. "
    "Non-trivial = operands with pairwise distinct non-zero components and scalar arguments that are not multiples of pi/2 / "
    "not 0 or 1; distinct by (cell, input)."
)
ASSUMPTIONS = [
    "the reference model is the documented definition (docs/index.md, protocol docstrings; Euler rule R_a(-psi)R_b(-theta)R_c(-phi))",
    "float64 tolerance 1e-9*scale on the well-conditioned stratum (observed rounding <= 2e-13)",
    "singular-input conventions (nan_to_num defaults) are not asserted here; inputs outside the regular domain are excluded and counted",
]

MARGIN = mpf("1e-6")


def _pick_other(op, da, db, k):
    allsig = [(sa, sb) for sa in R.SYSTEMS[da] for sb in (R.SYSTEMS[db] if db else [None])]
    allsig = [s for s in allsig if not (s[0] == CART[da] and (s[1] is None or s[1] == CART[db]))]
    if not allsig:
        return []
    h = zlib.crc32(f"{op.name}{da}{db}".encode())
    out = []
    for i in range(k):
        out.append(allsig[(h + i * 7919) % len(allsig)])
    return list(dict.fromkeys(out))


def cells(tier):
    out = []
    for op in OPS.values():
        if op.name == "isclose":
            continue  # its definition is stated per stored coordinate: C12
        for da in op.self_dims:
            for db in op.other_dims(da):
                sigs = [(CART[da], CART[db] if db else None)]
                if op.name in ("equal", "not_equal"):
                    pass
                elif tier == "quick":
                    sigs += _pick_other(op, da, db, 3)
                else:
                    sigs = [(sa, sb) for sa in R.SYSTEMS[da] for sb in (R.SYSTEMS[db] if db else [None])]
                orders = [None]
                if "order" in op.scalars:
                    orders = list(gen.EULER_ORDERS) + (["ZXZ", "yXy"] if tier == "quick" else [o.upper() for o in gen.EULER_ORDERS])
                if op.result in ("scalar", "angle", "vec") and "synonym" not in op.tags:
                    # accuracy tier: every stored system of the *second* operand with a Cartesian first operand and vice
                    # versa in quick (conditioning depends on how an operand is stored), all signatures in thorough
                    if tier == "quick":
                        acc = [(CART[da], sb) for sb in (R.SYSTEMS[db] if db else [None])] + [(sa, CART[db] if db else None) for sa in R.SYSTEMS[da]]
                        acc = list(dict.fromkeys(acc))
                    else:
                        acc = [(sa, sb) for sa in R.SYSTEMS[da] for sb in (R.SYSTEMS[db] if db else [None])]
                    for sa, sb in acc:
                        for order in (orders[:1] if tier == "quick" else orders):
                            cid = f"{op.name}|{da}{R.sysname(sa)}|{db or ''}{R.sysname(sb) if sb else ''}|{order or ''}|acc"
                            out.append({"id": cid, "op": op.name, "da": da, "db": db, "sa": R.sysname(sa),
                                        "sb": R.sysname(sb) if sb else None, "order": order, "mode": "acc"})
                allsigs = [(sa, sb) for sa in R.SYSTEMS[da] for sb in (R.SYSTEMS[db] if db else [None])]
                for sa, sb in (allsigs if op.name not in ("equal", "not_equal") else sigs):
                    for order in orders:
                        for mode in ("mp", "f64", "np", "ak"):
                            if (sa, sb) not in sigs and (mode != "mp" or (order is not None and order != orders[0])):
                                continue  # quick: every signature in the 60-digit tier, a sample in the float64 tiers
                            if "synonym" in op.tags and mode != "f64" and tier == "quick":
                                continue
                            if mode == "ak" and tier == "quick" and (sa, sb) != sigs[0] and (sa, sb) != sigs[-1]:
                                continue
                            cid = f"{op.name}|{da}{R.sysname(sa)}|{db or ''}{R.sysname(sb) if sb else ''}|{order or ''}|{mode}"
                            out.append({"id": cid, "op": op.name, "da": da, "db": db, "sa": R.sysname(sa),
                                        "sb": R.sysname(sb) if sb else None, "order": order, "mode": mode})
    return out


def examples(cell, tier):
    if tier == "quick":
        return 1 if cell["mode"] == "mp" else 2
    return 10


ACC_STRATA = ("acc_timelike", "acc_ultra", "acc_at_rest", "acc_spacelike", "acc_lightcone_in", "acc_lightcone_out", "acc_neg_t", "acc_timelike")
ACC_FWD = ("acc_timelike", "acc_ultra", "acc_at_rest", "acc_lightcone_in")


def strategy(cell, tier):
    op = OPS[cell["op"]]
    if cell["mode"] == "acc":
        # "well-conditioned operands": all sign patterns and causal characters incl. ultra-relativistic ones, but not the
        # geometric near-degeneracies (near-axis, near-plane, nearly parallel pairs) where acos/log-ratio formulas are
        # not expected to keep full relative accuracy
        from hypothesis import strategies as st

        strata = ACC_STRATA if max(cell["da"], cell["db"] or 0) == 4 else ("acc_timelike",) * 3
        parts = [opcheck.case_strategy(op, cell["db"], "mp", cell["order"], strata=(s_,), strata_b=(ACC_FWD if "boost" in op.tags else strata))
                 for s_ in strata]
        return st.tuples(*parts).map(list)
    mode = "mp" if cell["mode"] == "mp" else "f64"
    return opcheck.bundle_strategy(op, cell["da"], cell["db"], mode, cell["order"])


def _variant(cell):
    return f"{cell['da']}{cell['sa']}" + (f"+{cell['db']}{cell['sb']}" if cell["db"] else "") + (
        f"@{cell['order']}" if cell["order"] else "")


def _generic(a, b, s):
    vals = [abs(p) for p in a] + ([abs(p) for p in b] if b else [])
    if any(v == 0 for v in vals):
        return False
    if len(set(vals[: len(a)])) != len(a):
        return False
    import math

    for k, v in s.items():
        if isinstance(v, float):
            if k in ("angle", "phi", "theta", "psi", "yaw", "pitch", "roll"):
                r = (v / (math.pi / 2)) % 1.0
                if min(r, 1 - r) < 1e-9:
                    return False
            elif v in (0.0, 1.0, -1.0):
                return False
    return True


def _compare(ctx, op, cell, backend, got_kind, ref, a, b, s_in, tol, q):
    """got_kind: output of read_result-like tuple"""
    variant = _variant(cell)
    if op.result == "vec":
        _, sysr, stv, cart = got_kind
        if any(not obs.finite(x) for x in ref):
            ctx.exclude("nonfinite_reference")
            return False
        if opcheck.lossy_temporal(op.name, sysr, ref, (opcheck.parse_system(cell["sa"]), opcheck.parse_system(cell["sb"]) if cell.get("sb") else None)):
            ctx.fail("result_system" + q, f"{op.name} {variant} [{backend}]: the result came back stored as {R.sysname(sysr)} "
                     f"{opcheck.fmt(stv)}, which cannot hold its exact time component {opcheck.fmt(ref[3])} although an operand stores t; "
                     f"a={opcheck.fmt(a)} b={opcheck.fmt(b) if b else None}", op=op.name, variant=variant, backend=backend)
            return False
        if not R.representable(sysr, ref):
            ctx.exclude("result_not_representable")
            return False
        if not backend.endswith("mp") and len(sysr) >= 2 and sysr[1] in ("theta", "eta") and \
                R.rho2(ref) < (mpf("1e-3") * R.scale_of(a, b, ref)) ** 2:
            # float64: a result that cancelled onto the z axis is ill-conditioned in theta / eta storage
            ctx.exclude("ill_conditioned_result")
            return False
        scale = R.scale_of(a, b, ref)
        if len(cart) != len(ref):
            ctx.fail("dimension", f"{op.name} {variant}: result has {len(cart)} components, definition gives {len(ref)}",
                     op=op.name, variant=variant, backend=backend)
            return False
        # a returned vector is a vector like any other: its stored angles respect the documented ranges (C13), they are not
        # merely right modulo 2 pi
        pi_ = mpmath.pi if backend.endswith("mp") else mpf(math.pi)
        for nm_, x_ in zip(R.coord_names(sysr), stv):
            if obs.finite(x_) and ((nm_ == "phi" and abs(mpf(x_)) > pi_ * (1 + mpf("1e-15"))) or
                                   (nm_ == "theta" and not (-mpf("1e-15") <= mpf(x_) <= pi_ * (1 + mpf("1e-15"))))):
                ctx.fail("range" + q, f"{op.name} {variant} [{backend}]: the result stores {nm_} = {opcheck.fmt(x_)}, outside "
                         f"{'[-pi, pi]' if nm_ == 'phi' else '[0, pi]'}; a={opcheck.fmt(a)} b={opcheck.fmt(b) if b else None} scalars={s_in}",
                         op=op.name, variant=variant, backend=backend)
                return False
        n = op.changed if op.changed is not None else len(ref)
        if not opcheck.vec_equiv(sysr, stv, ref, tol, scale, n):
            ctx.fail("value" + q, f"{op.name} {variant} [{backend}]: result {opcheck.fmt(cart)} (stored {sysr} {opcheck.fmt(stv)}) != "
                     f"definition {opcheck.fmt(ref)}; a={opcheck.fmt(a)} b={opcheck.fmt(b) if b else None} scalars={s_in}",
                     op=op.name, variant=variant, backend=backend)
            return False
        return True
    if op.result == "bool":
        if bool(got_kind[1]) != bool(ref):
            ctx.fail("bool" + q, f"{op.name} {variant} [{backend}]: {got_kind[1]} but the definition gives {bool(ref)}; "
                     f"a={opcheck.fmt(a)} b={opcheck.fmt(b) if b else None} scalars={s_in}", op=op.name, variant=variant,
                     backend=backend)
            return False
        return True
    x = got_kind[1]
    if not obs.finite(ref):
        ctx.exclude("nonfinite_reference")
        return False
    scale = R.scale_of(a, b, ref)
    if op.name == "deltaangle" and obs.finite(x):

        ok = opcheck.close(mpmath.cos(ref), mpmath.cos(x), tol, 1) and opcheck.close(ref, x, mpmath.sqrt(tol) * 4, 1)
    elif op.result == "angle" and obs.finite(x):
        ok = R.angle_close(ref, x, tol * scale) and (-R.PI - tol <= mpf(x) <= R.PI + tol)
    else:
        ok = opcheck.close(ref, x, tol, scale)
    if not ok:
        ctx.fail("value" + q, f"{op.name} {variant} [{backend}]: {opcheck.fmt(x)} != definition {opcheck.fmt(ref)}; "
                 f"a={opcheck.fmt(a)} b={opcheck.fmt(b) if b else None} scalars={s_in}", op=op.name, variant=variant,
                 backend=backend)
        return False
    return True


def _prepare(cell, case, ctx, op, sa, sb):
    da, db = cell["da"], cell["db"]
    a, b = opcheck.canon(case, da, db)
    s_ref = opcheck.mp_scalars(case["s"])
    ctx.stratum(case["a"]["stratum"])
    if not op.pre(a, b, s_ref):
        ctx.exclude("precondition")
        return None
    if not R.representable(sa, a) or (sb and not R.representable(sb, b)):
        ctx.exclude("operand_not_representable")
        return None
    if op.result == "bool":
        m = catalog.margin(op, a, b, s_ref)
        if m is not None and m < MARGIN:
            ctx.exclude("decision_margin")
            return None
    return a, b, s_ref


def check_case(cell, bundle, ctx):
    if cell["mode"] in ("np", "ak"):
        return _check_numpy(cell, bundle, ctx)
    if cell["mode"] == "acc":
        for sub in bundle:
            ctx.evaluation()
            _check_accuracy(cell, sub, ctx)
        ctx.evaluations -= 1
        return
    for sub in bundle:
        ctx.evaluation()
        check_sub(cell, sub, ctx)
    ctx.evaluations -= 1


def check_sub(cell, case, ctx):
    op = OPS[cell["op"]]
    da, db = cell["da"], cell["db"]
    sa = opcheck.parse_system(cell["sa"])
    sb = opcheck.parse_system(cell["sb"]) if cell["sb"] else None
    mp_ = cell["mode"] == "mp"
    prep = _prepare(cell, case, ctx, op, sa, sb)
    if prep is None:
        return
    a, b, s_ref = prep
    s_in = case["s"]
    backend = "object-mp" if mp_ else "object-f64"
    tol = opcheck.MP_TOL if mp_ else opcheck.F64_TOL
    v, a_exact = obs.build(sa, a, mp_, op.momentum)
    w, b_exact = (obs.build(sb, b, mp_, False) if db else (None, None))
    if op.name in ("equal", "not_equal") and not mp_:
        a_exact, b_exact = a, b
    try:
        r = opcheck.call(op, v, w, s_ref if mp_ else s_in)
    except CallRaised as e:
        if mp_ and isinstance(e.exc, ZeroDivisionError):
            ctx.exclude("mp_singular")
            return
        ctx.fail("exception", f"{op.name} raised {e.exc!r} for {_variant(cell)}", op=op.name, variant=_variant(cell),
                 backend=backend)
        return
    ref = op.ref(a_exact, b_exact, s_ref)
    got = opcheck.read_result(op, r)
    q = opcheck.qualifiers(a, b)
    if _compare(ctx, op, cell, backend, got, ref, a_exact, b_exact, s_in, tol, q) and _generic(a, b, s_in):
        ctx.nontrivial(key=case, sample=case)


DIMENSIONLESS = ("costheta", "cottheta", "eta", "theta", "beta", "gamma", "rapidity", "deltaeta", "deltaR", "deltaR2", "deltaangle",
                 "deltaRapidityPhi", "deltaRapidityPhi2", "pseudorapidity")
U = mpf(2) ** -53
ACC_C = 1024


def _check_accuracy(cell, case, ctx):
    """float64 result within a small multiple of rounding error of the exact value *for well-conditioned operands*:
    the admissible error is ACC_C * u * (sum_i |d out / d in_i| |in_i| + |out|), with the sensitivities to the stored input
    coordinates and scalar arguments estimated by finite differences of the 60-digit reference model - so an input for
    which the operation is ill-conditioned in its stored representation gets a proportionally wider tolerance, and a
    formula that loses accuracy on a well-conditioned input (cancellation) does not."""

    op = OPS[cell["op"]]
    da, db = cell["da"], cell["db"]
    sa = opcheck.parse_system(cell["sa"])
    sb = opcheck.parse_system(cell["sb"]) if cell["sb"] else None
    prep = _prepare(cell, case, ctx, op, sa, sb)
    if prep is None:
        return
    a, b, s_ref = prep
    variant = _variant(cell)
    backend = "object-f64"
    try:
        v, a_exact = obs.build(sa, a, False, op.momentum)
        w, b_exact = (obs.build(sb, b, False, False) if db else (None, None))
    except ZeroDivisionError:
        ctx.exclude("mp_singular")
        return
    st_a = [mpf(x) for x in obs.stored(v)]
    st_b = [mpf(x) for x in obs.stored(w)] if db else []
    skeys = [k for k, val in case["s"].items() if isinstance(val, float)]
    s_in = dict(case["s"])
    try:
        r = opcheck.call(op, v, w, s_in)
    except CallRaised as e:
        if isinstance(e.exc, ZeroDivisionError):
            ctx.exclude("singular")
            return
        ctx.fail("exception", f"{op.name} raised {e.exc!r} for {variant}", op=op.name, variant=variant, backend=backend)
        return
    if case.get("rel") not in (None, "unary", "independent"):
        ctx.exclude("correlated_pair")
        return
    if db:
        # two independent draws can still coincide in direction (both the generator's simplest value): nearly (anti)parallel
        # pairs are outside the well-conditioned domain of the acos / difference formulas
        k_ = min(da, db, 3)
        na, nb = R.norm(a[:k_]) if k_ < 4 else None, R.norm(b[:k_]) if k_ < 4 else None
        if na and nb:
            c_ = sum(x * y for x, y in zip(a[:k_], b[:k_])) / (na * nb)
            if abs(c_) > 1 - mpf("1e-6"):
                ctx.exclude("correlated_pair")
                return
    if op.name == "to_beta3" and a[3] < 0:
        ctx.exclude("negative_t")
        return
    if op.result == "vec":
        sysr = obs.system_of(r)
        got = [mpf(float(x)) for x in obs.stored(r)]
        names = list(R.coord_names(sysr))
        if op.changed is not None:
            # scale2D/transform2D/...: only the coordinates the operation is documented to change
            keep = 2 if op.changed == 2 else 3
            got, names = got[:keep], names[:keep]
    else:
        sysr, got, names = None, [mpf(float(r))], [op.name]

    def F(xa, xb, xs):
        sc = dict(s_ref)
        for k, val in zip(skeys, xs):
            sc[k] = val
        ca = R.to_cartesian(sa, xa)
        cb = R.to_cartesian(sb, xb) if db else None
        out = op.ref(ca, cb, sc)
        if any(isinstance(x, mpmath.mpc) for x in (out if op.result == "vec" else [out])):
            # the reference leaves the real domain at the (perturbed) input: not a point where an error bound exists
            raise Skip_("complex_reference")
        if op.result == "vec":
            if not R.representable(sysr, out):
                raise Skip_("result_not_representable")
            return list(R.from_cartesian(sysr, out))[: len(got)]
        return [out]

    xs0 = [mpf(case["s"][k]) for k in skeys]
    try:
        ref = F(st_a, st_b, xs0)
        if not all(obs.finite(x) for x in ref):
            ctx.exclude("nonfinite_reference")
            return
        def sensitivities(delta):
            sens_ = [mpf(0)] * len(ref)
            for vec_, which in ((st_a, 0), (st_b, 1), (xs0, 2)):
                for i in range(len(vec_)):
                    base = vec_[i]
                    h = delta * (abs(base) if base != 0 else 1)
                    pert = list(vec_)
                    pert[i] = base + h
                    args = [st_a, st_b, xs0]
                    args[which] = pert
                    out = F(*args)
                    for k in range(len(ref)):
                        d = out[k] - ref[k]
                        if names[k] == "phi" or op.result == "angle":
                            d = R.wrap_pi(d)
                        sens_[k] += abs(d) / delta
            return sens_

        sens = sensitivities(mpf(2) ** -30)
    except Skip_ as sk:
        ctx.exclude(sk.args[0])
        return
    except (ZeroDivisionError, ValueError):
        ctx.exclude("mp_singular")
        return
    norm = max([abs(x) for x in ref] + [mpf(0)])
    boost_floor = mpf(0)
    if "boost" in op.tags and da == 4:
        # a boost combines gamma * p and gamma * beta * t: when they cancel (a nearly light-like vector boosted along its own
        # direction with a large Lorentz factor) every floating-point route carries u * gamma * (|p| + |t|), however smooth the
        # exact result is in the inputs - the same kind of floor as t^2 / tau for a proper time
        try:
            ca_ = R.to_cartesian(sa, st_a)
            if "gamma" in s_ref:
                g_ = abs(mpf(s_ref["gamma"]))
            elif "beta" in s_ref:
                g_ = 1 / mpmath.sqrt(1 - mpf(s_ref["beta"]) ** 2)
            elif db == 3:
                cb_ = R.to_cartesian(sb, st_b)
                g_ = 1 / mpmath.sqrt(1 - sum(x * x for x in cb_[:3]))
            elif db == 4:
                cb_ = R.to_cartesian(sb, st_b)
                g_ = abs(cb_[3]) / mpmath.sqrt(abs(cb_[3] ** 2 - sum(x * x for x in cb_[:3])))
            else:
                g_ = mpf(1)
            if isinstance(g_, mpmath.mpc) or not obs.finite(g_):
                g_ = mpf(1)
            boost_floor = g_ * (R.norm(ca_[:3]) + abs(ca_[3]))
        except Exception:  # noqa: BLE001
            boost_floor = mpf(0)
    for k in range(len(ref)):
        # angles and pseudorapidity are dimensionless: their own rounding floor is u*max(1,|value|)
        dimensionless = names[k] in ("phi", "theta", "eta") or op.result == "angle" or op.name in DIMENSIONLESS
        if dimensionless:
            floor = max(abs(ref[k]), mpf(1))
        elif op.result == "vec":
            floor = max(abs(ref[k]), norm)
            if names[k] == "tau" and len(ref) == 4 and ref[k] != 0:
                # a proper time that comes out of a computation in Cartesian components carries t^2 - |p|^2: rounding t at
                # relative u moves tau by u t^2 / tau - inherent to any route through (x, y, z, t), not a property of one formula
                try:
                    t_ref = R.to_cartesian(sysr, tuple(ref))[3]
                    floor = max(floor, t_ref * t_ref / abs(ref[k]))
                except Exception:  # noqa: BLE001
                    pass
        else:
            floor = abs(ref[k])
        if boost_floor and not dimensionless:
            floor = max(floor, boost_floor)
        tol = ACC_C * U * (sens[k] + floor) + mpf("1e-300")
        d = got[k] - ref[k]
        if names[k] == "phi" or op.result == "angle":
            d = R.wrap_pi(d)
        if mpmath.isnan(got[k]) or abs(d) > tol:
            # an error bound from first derivatives needs a reference that is smooth at this input: at a kink or a branch
            # point (acos at +-1 for exactly parallel operands, phi of a difference that cancels to zero, |x| at 0 ...) the
            # finite differences depend on the step; such points have no conditioning-based budget and are not judged here
            try:
                s_lo, s_hi = sensitivities(mpf(2) ** -44)[k], sensitivities(mpf(2) ** -16)[k]
            except Skip_ as sk:
                ctx.exclude(sk.args[0])
                return
            except (ZeroDivisionError, ValueError):
                ctx.exclude("mp_singular")
                return
            cand = [x for x in (s_lo, sens[k], s_hi)]
            if max(cand) > 4 * min(cand) + mpf("1e-30") * max(cand):
                if not mpmath.isnan(got[k]):
                    ctx.exclude("non_smooth_reference")
                    return
            if not mpmath.isnan(got[k]) and abs(d) <= ACC_C * U * (max(cand) + floor) + mpf("1e-300"):
                continue
            ctx.fail("accuracy" + opcheck.qualifiers(a, b), f"{op.name} {variant} [float64]: {names[k]} = {opcheck.fmt(got[k])}, exact value for the stored inputs "
                     f"{opcheck.fmt(ref[k])}; error {mpmath.nstr(abs(d), 3)} is {mpmath.nstr(abs(d) / (U * (sens[k] + floor)), 3)} times the "
                     f"rounding-error budget u*(conditioning+|value|) (allowed {ACC_C}); stored a={opcheck.fmt(st_a)} b={opcheck.fmt(st_b) if db else None} "
                     f"scalars={case['s']}", op=op.name, variant=variant, backend=backend)
            return
    if _generic(a, b, case["s"]):
        ctx.nontrivial(key=case, sample=case)


class Skip_(Exception):
    pass


def _np_scalar_arrays(op, subs):
    out = {}
    for name in op.scalars:
        kind = catalog.SCALAR_KIND[name]
        vals = [s["s"][name] for s in subs]
        if kind == "order":
            out[name] = vals[0]
        elif kind.startswith("matrix"):
            out[name] = {k: numpy.array([v[k] for v in vals]) for k in vals[0]}
        elif kind == "quat":
            out[name] = [numpy.array([v[i] for v in vals]) for i in range(4)]
        else:
            out[name] = numpy.array(vals, dtype=numpy.float64)
    return out


def _check_numpy(cell, bundle, ctx):
    op = OPS[cell["op"]]
    da, db = cell["da"], cell["db"]
    sa = opcheck.parse_system(cell["sa"])
    sb = opcheck.parse_system(cell["sb"]) if cell["sb"] else None
    is_ak = cell["mode"] == "ak"
    backend = "awkward-f64" if is_ak else "numpy-f64"
    subs, preps = [], []
    for sub in bundle:
        ctx.evaluation()
        prep = _prepare(cell, sub, ctx, op, sa, sb)
        if prep is not None:
            subs.append(sub)
            preps.append(prep)
    ctx.evaluations -= 1
    if not subs:
        return
    rows_a = [tuple(float(x) for x in R.from_cartesian(sa, p[0])) for p in preps]
    mk = (lambda s_, r_, m_: build.ak_flat(s_, r_, m_)) if is_ak else (lambda s_, r_, m_: build.np_array(s_, r_, m_))
    va = mk(sa, rows_a, op.momentum)
    vb = None
    rows_b = None
    if db:
        rows_b = [tuple(float(x) for x in R.from_cartesian(sb, p[1])) for p in preps]
        vb = mk(sb, rows_b, False)
    sc = _np_scalar_arrays(op, subs)
    try:
        r = opcheck.call(op, va, vb, sc)
    except CallRaised as e:
        ctx.fail("exception", f"{op.name} raised {e.exc!r} for NumPy arrays {_variant(cell)}", op=op.name,
                 variant=_variant(cell), backend=backend)
        return
    n = len(subs)
    if op.result == "vec":
        try:
            from vcheck import lattice

            sysr, rows = lattice.read_vector_rows(r)
        except Exception as e:  # noqa: BLE001
            ctx.fail("result_type", f"{op.name}: array result is not a readable vector array: {type(r).__name__} {e!r}",
                     op=op.name, variant=_variant(cell), backend=backend)
            return
        if len(rows) != n:
            ctx.fail("shape", f"{op.name}: NumPy result has {len(rows)} elements for {n} operands", op=op.name,
                     variant=_variant(cell), backend=backend)
            return
    else:
        arr = numpy.asarray(build.flat_values(r))
        if arr.shape[0] != n:
            ctx.fail("shape", f"{op.name}: NumPy result shape {numpy.shape(r)} for {n} operands", op=op.name,
                     variant=_variant(cell), backend=backend)
            return
    for i, (sub, prep) in enumerate(zip(subs, preps)):
        a, b, s_ref = prep
        a_exact = R.to_cartesian(sa, rows_a[i])
        b_exact = R.to_cartesian(sb, rows_b[i]) if db else None
        if op.name in ("equal", "not_equal"):
            a_exact, b_exact = a, b
        ref = op.ref(a_exact, b_exact, s_ref)
        if op.result == "vec":
            got = ("vec", sysr, rows[i], R.to_cartesian(sysr, rows[i]))
        elif op.result == "bool":
            got = ("bool", bool(arr[i]))
        else:
            got = ("scalar", float(arr[i]))
        q = opcheck.qualifiers(a, b)
        if _compare(ctx, op, cell, backend, got, ref, a_exact, b_exact, sub["s"], opcheck.F64_TOL, q) and _generic(a, b, sub["s"]):
            ctx.nontrivial(key=sub, sample=sub)


def describe(cell, case):
    return case
