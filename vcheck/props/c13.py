"""C13 - ranges, sign conventions and classification predicates are as documented.

Invariants checked on every generated vector (all strata, plus exact boundary inputs) in
every stored system on object (float64 and 60-digit), NumPy and Awkward backends; angle
and causal predicates against the reference model outside a decision margin, and their
mutual exclusion for a common tolerance unconditionally."""

from __future__ import annotations

import math
import zlib

import mpmath
from hypothesis import strategies as st
from mpmath import mpf

from vcheck import build, gen, mpbackend, obs, opcheck, refmodel as R
from vcheck.opcheck import CART

SHRINK = False


def reduce_candidates(cell, case):
    main = "vecs" if "vecs" in case else "pairs"
    # one element of one list at a time, the others emptied; then a single tolerance
    keys = [k for k in (main, "bnd", "raw") if k in case]
    if sum(len(case[k]) for k in keys) > 1:
        for key in keys:
            for el in case[key]:
                yield {**case, **{k: [] for k in keys}, key: [el]}
    if len(case["tol"]) > 1:
        for t in case["tol"]:
            yield {**case, "tol": [t]}


PID = "C13"
RULE = (
    "Cells = (group unary|pairs) x dimension x stored system (x second operand's system) x backend {object-f64, object-mp, "
    "numpy, awkward}. A case is a bundle: one vector per stratum (octants, near-axis, near-plane, phi near 0/+-pi/2/+-pi, "
    "near-light-cone both sides, space-like, at rest, ultra-relativistic, t<0) plus exact boundary vectors (zero vector, "
    "axis-aligned, exactly light-like, -0.0 components) and tolerances incl. 0; for pairs a generated relation "
    "(equal/parallel/antiparallel/perpendicular/near-parallel/independent). Every range/sign invariant of the statement is "
    "evaluated on each element; predicates are compared with the reference cosine / t^2-mag^2 outside a 1e-6 margin, and "
    "mutual exclusion is asserted unconditionally. Non-trivial = boundary stratum or tolerance > 0; distinct by (cell, input)."
)
ASSUMPTIONS = [
    "float64 range checks allow 4 ulp of slack at +-pi (numpy.arctan2 / % semantics), none elsewhere",
    "stored phi/theta/rho are generated inside their documented ranges; ranges are asserted for values the library computes or produces",
    "predicate decisions are compared with the reference only when |cos - threshold| (resp. relative |t^2-mag^2 -+ tol|) > 1e-6",
]

SLACK = 4e-16 * 4

BOUNDARY = [
    [0.0, 0.0, 0.0, 0.0], [1.0, 0.0, 0.0, 1.0], [-1.0, 0.0, 0.0, 2.0], [0.0, 1.0, 0.0, 1.0], [0.0, -1.0, 0.0, 3.0],
    [0.0, 0.0, 1.0, 1.0], [0.0, 0.0, -1.0, 1.0], [3.0, 4.0, 0.0, 5.0], [3.0, 0.0, 4.0, 5.0], [0.0, 0.0, 0.0, 1.0],
    [-0.0, 0.0, 0.0, 1.0], [-1.0, -0.0, 0.0, 1.0], [-1.0, 0.0, -0.0, 0.5], [1.0, 2.0, 2.0, 3.0], [2.0, -1.0, 2.0, 3.0],
    [1.0, 1.0, 0.0, 0.0], [0.0, 0.0, 2.0, -2.0], [1e-20, 0.0, 0.0, 1.0], [1e20, 1e20, 0.0, 1e21],
    [-1.0, 1.2246467991473532e-16, 0.0, 1.0], [-1.0, -1.2246467991473532e-16, 1.0, 2.0],
]

BACKENDS = ("object-f64", "object-mp", "numpy", "awkward")


def _pick(seq, key, k):
    h = zlib.crc32(key.encode())
    return [seq[(h + i * 7919) % len(seq)] for i in range(k)]


def cells(tier):
    out = []
    for d in (2, 3, 4):
        for sa in R.SYSTEMS[d]:
            for be in BACKENDS:
                out.append({"id": f"unary|{d}{R.sysname(sa)}|{be}", "group": "unary", "d": d, "sa": R.sysname(sa),
                            "sb": None, "backend": be})
            if tier == "quick":
                sbs = list(dict.fromkeys([CART[d], sa] + _pick(R.SYSTEMS[d], R.sysname(sa), 2)))
                if d == 4:
                    # every spatial pairing (the angle predicates, deltaphi and deltaangle use the spatial part only), the
                    # temporal type of the second operand alternating
                    for k, s3 in enumerate(R.SYSTEMS[3]):
                        sbs.append(s3 + (("t", "tau")[(k + len(R.sysname(sa))) % 2],))
                    sbs = list(dict.fromkeys(sbs))
                else:
                    sbs = list(R.SYSTEMS[d])
            else:
                sbs = R.SYSTEMS[d]
            for sb in sbs:
                for be in BACKENDS:
                    full = [CART[d], sa] + _pick(R.SYSTEMS[d], R.sysname(sa), 2)
                    if tier == "quick" and be != "object-f64" and sb not in full:
                        continue
                    if tier == "quick" and be in ("numpy", "awkward") and sb not in (CART[d], sa):
                        continue
                    out.append({"id": f"pairs|{d}{R.sysname(sa)}|{R.sysname(sb)}|{be}", "group": "pairs", "d": d,
                                "sa": R.sysname(sa), "sb": R.sysname(sb), "backend": be})
    return out


def examples(cell, tier):
    return 2 if tier == "quick" else 25


def _mag_or_zero(lo, hi):
    """exactly zero, or a value of either sign whose magnitude is in [lo, hi] (no subnormal / underflowing values)"""
    return st.one_of(st.just(0.0), st.builds(lambda s, m: s * m, st.sampled_from((1.0, -1.0)), st.floats(lo, hi)))


def strategy(cell, tier):
    d = cell["d"]
    strata = opcheck.STRATA_BY_DIM[d]
    if cell["group"] == "unary":
        parts = [gen.vec((s,)) for s in strata]
        return st.fixed_dictionaries({
            "vecs": st.tuples(*parts).map(list),
            "bnd": st.lists(st.sampled_from(BOUNDARY), min_size=3, max_size=6),
            "tol": st.lists(gen.tolerance(), min_size=3, max_size=3),
            # stored coordinates generated directly (not derived from a Cartesian vector): any rho >= 0, phi, theta in their
            # ranges, any eta, z, t and tau of either sign - including tau < 0 with |tau| > mag
            "raw": st.lists(st.fixed_dictionaries({
                "rho": st.one_of(st.just(0.0), st.floats(1e-3, 50.0)), "phi": _mag_or_zero(1e-3, math.pi), "x": _mag_or_zero(1e-3, 50.0),
                "y": _mag_or_zero(1e-3, 50.0), "z": _mag_or_zero(1e-3, 50.0), "theta": st.floats(1e-3, math.pi - 1e-3),
                "eta": _mag_or_zero(1e-3, 6.0), "t": _mag_or_zero(1e-3, 80.0),
                "tau": st.one_of(_mag_or_zero(1e-3, 80.0), _mag_or_zero(1e-3, 3.0))}), min_size=4, max_size=4),
        })
    parts = [gen.pair((s,), strata_b=strata) for s in strata]
    return st.fixed_dictionaries({
        "pairs": st.tuples(*parts).map(list),
        "bnd": st.lists(st.tuples(st.sampled_from(BOUNDARY), st.sampled_from(BOUNDARY)), min_size=2, max_size=4),
        "tol": st.lists(gen.tolerance(), min_size=3, max_size=3),
    })


def _storable(system, cart, mp_):
    """stored coordinates of `cart` in `system` (floats for f64 backends), or None when
    not representable (theta/eta on the z axis, tau with t<0)."""
    c = tuple(mpf(x) for x in cart[: len(system) + 1])
    if not R.representable(system, c):
        return None
    try:
        st_ = R.from_cartesian(system, c)
    except ZeroDivisionError:
        return None
    if mp_:
        return st_
    fl = tuple(float(x) for x in st_)
    if any(math.isinf(x) or math.isnan(x) for x in fl):
        return None
    return fl


def _mk(be, system, rows):
    if be == "object-f64":
        return [mpbackend.make(system, r, False, False) for r in rows]
    if be == "object-mp":
        return [mpbackend.make(system, r, False, True) for r in rows]
    if be == "numpy":
        return build.np_array(system, rows)
    return build.ak_flat(system, rows)


def _vals(be, vs, f):
    """evaluate f on the backend's vector(s); list of per-element values (None = mp singular)"""
    if be.startswith("object"):
        out = []
        for v in vs:
            try:
                out.append(f(v))
            except ZeroDivisionError:
                # mpmath and plain Python floats raise where numpy returns inf/nan: singular input
                out.append(None)
        return out
    return build.to_list(f(vs))


def _vals2(be, vs, ws, f):
    if be.startswith("object"):
        out = []
        for v, w in zip(vs, ws):
            try:
                out.append(f(v, w))
            except ZeroDivisionError:
                out.append(None)
        return out
    return build.to_list(f(vs, ws))


def _num(x):
    if x is None:
        return None
    if isinstance(x, mpf):
        return x
    return float(x)


def check_case(cell, case, ctx):
    if cell["group"] == "unary":
        _check_unary(cell, case, ctx)
    else:
        _check_pairs(cell, case, ctx)


def _fail(ctx, cell, op, kind, msg):
    ctx.fail(kind, msg, op=op, variant=f"{cell['d']}{cell['sa']}" + (f"+{cell['sb']}" if cell["sb"] else ""),
             backend=cell["backend"])


def _check_unary(cell, case, ctx):
    d = cell["d"]
    sa = opcheck.parse_system(cell["sa"])
    be = cell["backend"]
    mp_ = be == "object-mp"
    carts, rows, labels = [], [], []
    for v in case["vecs"]:
        r = _storable(sa, v["c"], mp_)
        if r is None:
            ctx.exclude("operand_not_representable")
            continue
        carts.append(v["c"][:d]); rows.append(r); labels.append(v["stratum"])
    if not mp_:
        for b in case["bnd"]:
            r = _storable(sa, b, mp_)
            if r is None:
                ctx.exclude("operand_not_representable")
                continue
            carts.append(b[:d]); rows.append(r); labels.append("boundary")
    if not mp_:
        for raw in case.get("raw", []):
            r = tuple(float(raw[nm]) for nm in R.coord_names(sa))
            ex = R.to_cartesian(sa, r)
            if all(obs.finite(x) for x in ex):
                carts.append([float(x) for x in ex]); rows.append(r); labels.append("raw")
    if not rows:
        return
    vs = _mk(be, sa, rows)
    n = len(rows)
    slack = mpf("1e-50") if mp_ else SLACK
    PI = R.PI if mp_ else math.pi
    exact = [R.to_cartesian(sa, r) for r in rows]

    def each(name, f, pred, why, cond=None):
        try:
            vals = _vals(be, vs, f)
        except Exception as e:  # noqa: BLE001
            _fail(ctx, cell, name, "exception", f"{name} raised {e!r} on {cell['sa']} [{be}] rows={rows[:3]}")
            return None
        if len(vals) != n:
            _fail(ctx, cell, name, "shape", f"{name}: {len(vals)} values for {n} elements")
            return None
        for i, x in enumerate(vals):
            ctx.evaluation()
            x = _num(x)
            if x is None:
                continue
            if cond is not None and not cond(i):
                continue
            ok = pred(x, i)
            if not ok:
                _fail(ctx, cell, name, why, f"{name}={x!r} violates '{why}' for stored {cell['sa']}{opcheck.fmt(rows[i])} "
                      f"(canonical {carts[i]}, stratum {labels[i]}) [{be}]")
                return None
        return vals

    def notnan(x):
        return not (isinstance(x, float) and math.isnan(x)) and not (isinstance(x, mpf) and mpmath.isnan(x))

    rho_pos = lambda i: R.rho2(exact[i]) > 0  # noqa: E731
    each("phi", lambda v: v.phi, lambda x, i: notnan(x) and -PI - slack <= x <= PI + slack, "phi in [-pi,pi]")
    each("rho", lambda v: v.rho, lambda x, i: notnan(x) and x >= 0, "rho >= 0")
    each("rho2", lambda v: v.rho2, lambda x, i: notnan(x) and x >= 0, "rho2 >= 0")
    if d >= 3:
        mag_pos = lambda i: R.mag2(exact[i]) > 0  # noqa: E731
        each("theta", lambda v: v.theta, lambda x, i: notnan(x) and -slack <= x <= PI + slack, "theta in [0,pi]")
        each("mag", lambda v: v.mag, lambda x, i: notnan(x) and x >= 0, "mag >= 0")
        each("mag2", lambda v: v.mag2, lambda x, i: notnan(x) and x >= 0, "mag2 >= 0")
        zsign = lambda i: (exact[i][2] > 0) - (exact[i][2] < 0)  # noqa: E731
        # sign conventions only where z is well away from 0 relative to the vector (z != 0)
        zclear = lambda i: mag_pos(i) and abs(exact[i][2]) > mpf("1e-12") * R.mag(exact[i])  # noqa: E731
        each("costheta", lambda v: v.costheta, lambda x, i: notnan(x) and ((x > 0) - (x < 0)) == zsign(i) and abs(x) <= 1 + slack,
             "sign(costheta)=sign(z), |costheta|<=1", cond=zclear)
        each("cottheta", lambda v: v.cottheta, lambda x, i: notnan(x) and ((x > 0) - (x < 0)) == zsign(i),
             "sign(cottheta)=sign(z)", cond=lambda i: zclear(i) and rho_pos(i))
    if d == 4:
        each("t2", lambda v: v.t2, lambda x, i: notnan(x) and x >= 0, "t2 >= 0")
        if sa[2] == "tau":
            each("t", lambda v: v.t, lambda x, i: notnan(x) and x >= 0, "t from tau >= 0 and not NaN")
        tau2 = [R.tau2(e) for e in exact]
        sc = [R.scale_of(R.t2(e), R.mag2(e)) for e in exact]
        clear = lambda i: abs(tau2[i]) > mpf("1e-9") * sc[i]  # noqa: E731
        each("tau", lambda v: v.tau, lambda x, i: notnan(x) and ((x < 0) == (tau2[i] < 0)), "tau<0 iff t^2<mag^2", cond=clear)
        fwd = lambda i: clear(i) and tau2[i] > 0 and exact[i][3] > 0  # noqa: E731
        each("beta", lambda v: v.beta, lambda x, i: notnan(x) and 0 <= x < 1, "0<=beta<1 for forward timelike", cond=fwd)
        each("gamma", lambda v: v.gamma, lambda x, i: notnan(x) and x >= 1, "gamma>=1 for forward timelike", cond=fwd)
        # light-like: beta == 1 (float64: exactly light-like boundary vectors in t storage; mp: constructed)
        if not mp_:
            ll = lambda i: labels[i] == "boundary" and tau2[i] == 0 and exact[i][3] > 0 and sa[2] == "t"  # noqa: E731
            each("beta", lambda v: v.beta, lambda x, i: abs(x - 1) <= 1e-12, "beta=1 for lightlike", cond=ll)
        # classification with a common tolerance: never two at once, each follows the sign
        for tol in case["tol"]:
            t_in = mpf(tol) if mp_ else tol
            try:
                tl = _vals(be, vs, lambda v: v.is_timelike(t_in))
                sl = _vals(be, vs, lambda v: v.is_spacelike(t_in))
                ll_ = _vals(be, vs, lambda v: v.is_lightlike(t_in))
            except Exception as e:  # noqa: BLE001
                _fail(ctx, cell, "is_timelike", "exception", f"causal predicate raised {e!r} [{be}]")
                return
            for i in range(n):
                ctx.evaluation()
                if tl[i] is None:
                    continue
                flags = (bool(tl[i]), bool(ll_[i]), bool(sl[i]))
                if sum(flags) > 1:
                    _fail(ctx, cell, "is_timelike/is_lightlike/is_spacelike", "overlap",
                          f"(timelike, lightlike, spacelike)={flags} with tolerance {tol} for stored {cell['sa']}"
                          f"{opcheck.fmt(rows[i])} (t^2-mag^2={opcheck.fmt(tau2[i])}) [{be}]")
                    return
                m_t = abs(tau2[i] - abs(mpf(tol))) / sc[i]
                m_s = abs(tau2[i] + abs(mpf(tol))) / sc[i]
                m_l = abs(abs(tau2[i]) - abs(mpf(tol))) / sc[i]
                exp = (tau2[i] > abs(mpf(tol)), abs(tau2[i]) < abs(mpf(tol)), tau2[i] < -abs(mpf(tol)))
                for nm, got, want, m in (("is_timelike", flags[0], exp[0], m_t), ("is_lightlike", flags[1], exp[1], m_l),
                                         ("is_spacelike", flags[2], exp[2], m_s)):
                    if m > mpf("1e-6") and got != bool(want):
                        _fail(ctx, cell, nm, "classification", f"{nm}({tol})={got} but t^2-mag^2={opcheck.fmt(tau2[i])} for "
                              f"stored {cell['sa']}{opcheck.fmt(rows[i])} [{be}]")
                        return
                if labels[i] != "octant" or tol > 0:
                    ctx.nontrivial(key=[rows[i] if not mp_ else [str(x) for x in rows[i]], tol], sample={"stored": [float(x) for x in rows[i]], "tol": tol})
    for i in range(n):
        if labels[i] not in ("octant", "moderate"):
            ctx.nontrivial(key=[float(x) for x in rows[i]], sample={"stored": [float(x) for x in rows[i]], "stratum": labels[i]})
        ctx.stratum(labels[i])


def _check_pairs(cell, case, ctx):
    d = cell["d"]
    sa = opcheck.parse_system(cell["sa"])
    sb = opcheck.parse_system(cell["sb"])
    be = cell["backend"]
    mp_ = be == "object-mp"
    ra, rb, labels = [], [], []
    src = [(p["a"]["c"], p["b"]["c"], p["rel"]) for p in case["pairs"]]
    if not mp_:
        src += [(a, b, "boundary") for a, b in case["bnd"]]
    for a, b, rel in src:
        x = _storable(sa, a, mp_)
        y = _storable(sb, b, mp_)
        if x is None or y is None:
            ctx.exclude("operand_not_representable")
            continue
        ra.append(x); rb.append(y); labels.append(rel)
    if not ra:
        return
    n = len(ra)
    vs, ws = _mk(be, sa, ra), _mk(be, sb, rb)
    ea = [R.to_cartesian(sa, r) for r in ra]
    eb = [R.to_cartesian(sb, r) for r in rb]
    slack = mpf("1e-50") if mp_ else SLACK
    PI = R.PI if mp_ else math.pi

    def notnan(x):
        return not (isinstance(x, float) and math.isnan(x)) and not (isinstance(x, mpf) and mpmath.isnan(x))

    def run(name, f):
        try:
            vals = _vals2(be, vs, ws, f)
        except Exception as e:  # noqa: BLE001
            _fail(ctx, cell, name, "exception", f"{name} raised {e!r} [{be}] a={ra[:2]} b={rb[:2]}")
            return None
        if len(vals) != n:
            _fail(ctx, cell, name, "shape", f"{name}: {len(vals)} values for {n} pairs")
            return None
        return vals

    vals = run("deltaphi", lambda v, w: v.deltaphi(w))
    if vals is None:
        return
    for i, x in enumerate(vals):
        ctx.evaluation()
        x = _num(x)
        if x is None:
            continue
        if not (notnan(x) and -PI - slack <= x <= PI + slack):
            _fail(ctx, cell, "deltaphi", "deltaphi in [-pi,pi]", f"deltaphi={x!r} for a={cell['sa']}{opcheck.fmt(ra[i])} "
                  f"b={cell['sb']}{opcheck.fmt(rb[i])} [{be}]")
            return
    # the ranges hold for vectors that come out of an operation as well (the sum or difference of two vectors, a negated one):
    # phi of a result is in [-pi, pi], not merely right modulo 2 pi
    for rname, rf in (("(a+b).phi", lambda v, w: v.add(w).phi), ("(a-b).phi", lambda v, w: v.subtract(w).phi),
                      ("(-1.5 a).phi", lambda v, w: v.scale(-1.5).phi)) + (
                          (("(a+b).theta", lambda v, w: v.add(w).theta), ("(-1.5 a).theta", lambda v, w: v.scale(-1.5).theta)) if d >= 3 else ()) + (
                              ("(-1.5 a).rho", lambda v, w: v.scale(-1.5).rho), ("(-a).rho", lambda v, w: (-v).rho), ("(a / -2).rho", lambda v, w: (v / -2.0).rho),
                              ("(a-b).rho", lambda v, w: v.subtract(w).rho)):
        vals = run(rname, rf)
        if vals is None:
            return
        lo = -PI if rname.endswith("phi") else 0
        for i, x in enumerate(vals):
            ctx.evaluation()
            x = _num(x)
            if x is None or not notnan(x):
                continue
            if not (lo - slack <= x <= PI + slack) and not (rname.endswith("rho") and x >= 0):
                _fail(ctx, cell, rname.split(".")[-1], "range of a result", f"{rname}={x!r} for a={cell['sa']}{opcheck.fmt(ra[i])} "
                      f"b={cell['sb']}{opcheck.fmt(rb[i])} [{be}]")
                return
    nz = lambda e: (R.mag2(e) if d >= 3 else R.rho2(e)) > 0  # noqa: E731
    if d >= 3:
        vals = run("deltaangle", lambda v, w: v.deltaangle(w))
        if vals is None:
            return
        for i, x in enumerate(vals):
            ctx.evaluation()
            x = _num(x)
            if x is None or not (nz(ea[i]) and nz(eb[i])):
                continue
            if not (notnan(x) and -slack <= x <= PI + slack):
                _fail(ctx, cell, "deltaangle", "deltaangle in [0,pi]", f"deltaangle={x!r} for a={cell['sa']}{opcheck.fmt(ra[i])} "
                      f"b={cell['sb']}{opcheck.fmt(rb[i])} [{be}]")
                return
    # angle predicates vs the reference cosine
    for tol in case["tol"]:
        t_in = mpf(tol) if mp_ else tol
        res = {}
        for nm in ("is_parallel", "is_antiparallel", "is_perpendicular"):
            res[nm] = run(nm, lambda v, w, _n=nm: getattr(v, _n)(w, t_in))
            if res[nm] is None:
                return
        for i in range(n):
            ctx.evaluation()
            if res["is_parallel"][i] is None or not (nz(ea[i]) and nz(eb[i])):
                continue
            a3, b3 = ea[i][:3], eb[i][:3]
            if d == 2:
                c = (a3[0] * b3[0] + a3[1] * b3[1]) / (R.rho(a3) * R.rho(b3))
            else:
                c = R.cosangle(a3, b3)
            at = abs(mpf(tol))
            want = {"is_parallel": (c > 1 - at, abs(c - (1 - at))), "is_antiparallel": (c < -1 + at, abs(c - (-1 + at))),
                    "is_perpendicular": (abs(c) < at, abs(abs(c) - at))}
            for nm, (w_, m) in want.items():
                got = bool(res[nm][i])
                if m > mpf("1e-6") and got != bool(w_):
                    _fail(ctx, cell, nm, "angle_predicate", f"{nm}(tol={tol})={got} but cos(angle)={opcheck.fmt(c)} for "
                          f"a={cell['sa']}{opcheck.fmt(ra[i])} b={cell['sb']}{opcheck.fmt(rb[i])} relation={labels[i]} [{be}]")
                    return
            if labels[i] != "independent" or tol > 0:
                ctx.nontrivial(key=[[float(x) for x in ra[i]], [float(x) for x in rb[i]], tol],
                               sample={"a": [float(x) for x in ra[i]], "b": [float(x) for x in rb[i]], "tol": tol, "rel": labels[i]})
    for lb in labels:
        ctx.stratum("rel:" + lb)


def describe(cell, case):
    return case
