"""C12 - equality, inequality and closeness are coherent."""

from __future__ import annotations

import math

import numpy
from hypothesis import strategies as st
from mpmath import mpf

from vcheck import build, gen, mpbackend, opcheck, refmodel as R

PID = "C12"
SHRINK = False
RULE = (
    "Cells = dimension x stored system of a x stored system of b (all 4/36/144 pairings) x backend {object, numpy, awkward}. "
    "A case is a bundle of pairs: a from each stratum; b = a with a generated subset of components changed (none / exactly one / "
    "several / all) by 1 ulp, 1e-12, 3e-6 or O(1) - on the stored coordinates when both systems coincide, on the Cartesian "
    "components otherwise; tolerances rtol, atol >= 0 (incl. 0) and a second, larger pair. Oracles: == reflexive and symmetric; "
    "same system => == iff all stored coordinates equal; != is exactly not == for every pairing; isclose reflexive, implied by "
    "==, monotone in (rtol, atol); same system => isclose iff |a_i-b_i| <= atol + rtol*|b_i| for every stored coordinate; "
    "operators == method forms == numpy.equal/not_equal (all backends), numpy.isclose/allclose (NumPy), .allclose (arrays). "
    "Non-trivial = pair differing in at least one but not all components; distinct by (cell, input)."
)
ASSUMPTIONS = ["operands are NaN-free and finite", "numpy.isclose is the reference for the per-coordinate closeness test"]

BACKENDS = ("object", "numpy", "awkward")


def reduce_candidates(cell, bundle):
    if len(bundle) > 1:
        for sub in bundle:
            yield [sub]


def cells(tier):
    out = []
    for d in (2, 3, 4):
        S = R.SYSTEMS[d]
        for i, sa in enumerate(S):
            for j, sb in enumerate(S):
                for be in BACKENDS:
                    if tier == "quick" and d == 4 and be != "object" and not (sa == sb or (i + j) % 3 == 0):
                        continue
                    out.append({"id": f"{d}{R.sysname(sa)}|{R.sysname(sb)}|{be}", "d": d, "sa": R.sysname(sa),
                                "sb": R.sysname(sb), "backend": be})
    return out


def examples(cell, tier):
    return 1 if tier == "quick" else 12


def strategy(cell, tier):
    d = cell["d"]
    strata = opcheck.STRATA_BY_DIM[d]
    # large relative tolerances make the *asymmetry* of the closeness test visible: |a-b| <= atol + rtol*|b| (the second operand)
    tol = st.one_of(st.just(0.0), st.floats(-13.0, -1.0).map(lambda e: 10.0**e), st.sampled_from((0.25, 0.4, 0.75, 1.0, 2.5)))
    parts = []
    for s in strata:
        parts.append(st.fixed_dictionaries({
            "a": gen.vec((s,)),
            "mask": st.lists(st.booleans(), min_size=d, max_size=d),
            "pert": st.sampled_from(("ulp", "tiny", "small", "big", "half", "half")),
            # exact boundary values in the stored coordinates (zero radius with an arbitrary angle, zero components, -0.0)
            "special": st.sampled_from((None, None, None, "zero0", "zero1", "zero_all", "negzero0", "zero_last")),
            "rtol": tol, "atol": tol, "rfac": st.floats(1.0, 1e4), "afac": st.floats(1.0, 1e4),
        }))
    return st.tuples(*parts).map(list)


def _perturb(x, kind):
    if x == 0 and kind in ("ulp", "tiny", "small"):
        return {"ulp": 5e-324, "tiny": 1e-300, "small": 1e-9}[kind]
    if kind == "ulp":
        return math.nextafter(x, math.inf)
    if kind == "tiny":
        return x * (1 + 1e-12) if x != 0 else 1e-300
    if kind == "small":
        return x * (1 + 3e-6) + 1e-9
    if kind == "half":
        return x * 1.5 if x != 0 else 0.5
    return x * 1.37 + 0.11


def _rows(cell, sub):
    d = cell["d"]
    sa = opcheck.parse_system(cell["sa"])
    sb = opcheck.parse_system(cell["sb"])
    ac = tuple(mpf(x) for x in sub["a"]["c"][:d])
    if not R.representable(sa, ac):
        return None
    ra = tuple(float(x) for x in R.from_cartesian(sa, ac))
    sp = sub.get("special")
    if sp:
        ra = list(ra)
        if sp == "zero0":
            ra[0] = 0.0
        elif sp == "negzero0":
            ra[0] = -0.0
        elif sp == "zero1":
            ra[1] = 0.0
        elif sp == "zero_last":
            ra[-1] = 0.0
        else:
            ra = [0.0 if R.coord_names(sa)[i] not in ("theta",) else x for i, x in enumerate(ra)]
        ra = tuple(ra)
        ac = R.to_cartesian(sa, ra)
        if any(not (x == x) or abs(x) == float("inf") for x in [float(v) for v in ac]):
            return None
    mask = sub["mask"]
    if sa == sb:
        rb = tuple(_perturb(x, sub["pert"]) if m else x for x, m in zip(ra, mask))
        # keep b inside the documented coordinate ranges (rho >= 0 is preserved by the perturbations; theta, phi may
        # leave their range by an ulp only, which does not matter for comparisons of stored values)
    else:
        bc = tuple(mpf(_perturb(float(x), sub["pert"])) if m else x for x, m in zip(ac, mask))
        if not R.representable(sb, bc):
            return None
        rb = tuple(float(x) for x in R.from_cartesian(sb, bc))
    if any(math.isnan(x) or math.isinf(x) for x in ra + rb):
        return None
    return ra, rb


def _bools(x):
    return [bool(v) for v in build.to_list(x)]


def check_case(cell, bundle, ctx):
    d = cell["d"]
    sa = opcheck.parse_system(cell["sa"])
    sb = opcheck.parse_system(cell["sb"])
    be = cell["backend"]
    variant = f"{d}{cell['sa']}+{cell['sb']}"
    subs, RA, RB = [], [], []
    for sub in bundle:
        r = _rows(cell, sub)
        if r is None:
            ctx.exclude("operand_not_representable")
            continue
        subs.append(sub); RA.append(r[0]); RB.append(r[1])
    if not subs:
        return
    n = len(subs)

    def fail(kind, msg, op):
        ctx.fail(kind, f"[{variant}; {be}] {msg}", op=op, variant=variant, backend=be)

    def evaluate(A, B, rt, at):
        """all spellings -> dict name -> list of bools (len n_elems)"""
        out = {}
        out["equal"] = _bools(A.equal(B))
        out["=="] = _bools(A == B)
        out["numpy.equal"] = _bools(numpy.equal(A, B))
        out["not_equal"] = _bools(A.not_equal(B))
        out["!="] = _bools(A != B)
        out["numpy.not_equal"] = _bools(numpy.not_equal(A, B))
        out["equal_rev"] = _bools(B.equal(A))
        out["isclose"] = _bools(A.isclose(B, rtol=rt, atol=at))
        out["isclose_rev_args"] = _bools(A.isclose(B, rt, at))
        return out

    if be == "object":
        per = []
        for i in range(n):
            A = mpbackend.make(sa, RA[i], False, False)
            B = mpbackend.make(sb, RB[i], False, False)
            per.append((A, B))
        groups = [([i], per[i][0], per[i][1]) for i in range(n)]
    else:
        A = build.make(be, sa, RA)
        B = build.make(be, sb, RB)
        groups = [(list(range(n)), A, B)]

    for idx, A, B in groups:
        # tolerances: arrays broadcast per element on array backends, scalars on objects
        if be == "object":
            s = subs[idx[0]]
            rt, at = s["rtol"], s["atol"]
            rt2, at2 = rt * s["rfac"] + (1e-9 if rt == 0 else 0), at * s["afac"] + (1e-9 if at == 0 else 0)
        else:
            rt = numpy.array([subs[i]["rtol"] for i in idx])
            at = numpy.array([subs[i]["atol"] for i in idx])
            rt2 = numpy.array([subs[i]["rtol"] * subs[i]["rfac"] + (1e-9 if subs[i]["rtol"] == 0 else 0) for i in idx])
            at2 = numpy.array([subs[i]["atol"] * subs[i]["afac"] + (1e-9 if subs[i]["atol"] == 0 else 0) for i in idx])
            if be == "awkward":
                import awkward as ak

                rt, at, rt2, at2 = (ak.Array(x) for x in (rt, at, rt2, at2))
        try:
            r = evaluate(A, B, rt, at)
            r_aa = evaluate(A, A, rt, at)
            wide = _bools(A.isclose(B, rtol=rt2, atol=at2))
            extra = {}
            if be == "numpy":
                extra["numpy.isclose"] = _bools(numpy.isclose(A, B, rt, at))
                extra["allclose"] = bool(A.allclose(B, rt, at))
                extra["numpy.allclose"] = bool(numpy.allclose(A, B, rt, at))
                # the function forms when NumPy hands the call to the *second* operand's class: a momentum array on the
                # right of a generic one, and a single object on the left of an array
                Bm = build.make(be, sb, RB, momentum=True)
                extra["numpy.isclose(generic, momentum)"] = _bools(numpy.isclose(A, Bm, rt, at))
                extra["numpy.allclose(generic, momentum)"] = bool(numpy.allclose(A, Bm, rt, at))
                o0 = mpbackend.make(sa, RA[0], False, False)
                extra["obj.isclose(array)"] = _bools(o0.isclose(B, rt, at))
                extra["numpy.isclose(object, array)"] = _bools(numpy.isclose(o0, B, rt, at))
                extra["numpy.equal(object, array)"] = _bools(numpy.equal(o0, B))
                extra["obj.equal(array)"] = _bools(o0.equal(B))
            elif be == "awkward":
                extra["allclose"] = bool(A.allclose(B, rt, at))
            # operands that carry a non-coordinate field with different values on the two sides: the decision is about the
            # stored coordinates only
            if be == "numpy":
                Ax, Bx = build.np_array(sa, RA, extra=True), build.np_array(sb, RB, extra=True)
                numpy.asarray(Bx).view(numpy.ndarray)["charge"] += 7
            else:
                Ax = build.ak_flat(sa, RA, False, None, {"charge": numpy.arange(len(RA))}) if be == "awkward" else None
                Bx = build.ak_flat(sb, RB, False, None, {"charge": numpy.arange(len(RB)) + 7}) if be == "awkward" else None
            r_x = evaluate(Ax, Bx, rt, at) if Ax is not None else r
        except Exception as e:  # noqa: BLE001
            fail("exception", f"comparison raised {e!r} for a={RA[idx[0]]} b={RB[idx[0]]}", "equal")
            return
        for k, vals in r.items():
            if len(vals) != len(idx):
                fail("shape", f"{k} returned {len(vals)} values for {len(idx)} elements", k)
                return
        for k, vals in r_x.items():
            if vals != r[k]:
                fail("extra_field", f"{k} gives {vals} for operands that carry a differing non-coordinate field 'charge' but {r[k]} "
                     f"without it (a rows={RA[:2]}... b rows={RB[:2]}...)", "isclose" if "isclose" in k else ("not_equal" if "not" in k or "!" in k else "equal"))
                return
        for j, i in enumerate(idx):
            ctx.evaluation()
            a_, b_ = RA[i], RB[i]
            info = f"a={cell['sa']}{a_} b={cell['sb']}{b_} rtol={subs[i]['rtol']} atol={subs[i]['atol']}"
            eq = r["equal"][j]
            if not (r_aa["equal"][j] and r_aa["=="][j]):
                fail("reflexive", f"a == a is False for {info}", "equal"); return
            if r_aa["not_equal"][j] or r_aa["!="][j]:
                fail("reflexive", f"a != a is True for {info}", "not_equal"); return
            if r["equal_rev"][j] != eq:
                fail("symmetric", f"(a==b)={eq} but (b==a)={r['equal_rev'][j]} for {info}", "equal"); return
            if sa == sb:
                want = all(x == y for x, y in zip(a_, b_))
                if eq != want:
                    fail("same_system", f"a==b is {eq} but stored coordinates {'all equal' if want else 'differ'}: {info}", "equal")
                    return
            for nm in ("==", "numpy.equal"):
                if r[nm][j] != eq:
                    fail("spelling", f"{nm} gives {r[nm][j]} but .equal gives {eq}: {info}", "equal"); return
            for nm in ("not_equal", "!=", "numpy.not_equal"):
                if r[nm][j] != (not eq):
                    fail("negation", f"{nm} gives {r[nm][j]} while == gives {eq}: {info}", "not_equal"); return
            ic = r["isclose"][j]
            if not r_aa["isclose"][j]:
                fail("isclose_reflexive", f"a.isclose(a) is False: {info}", "isclose"); return
            if eq and not ic:
                fail("eq_implies_isclose", f"a==b but not a.isclose(b): {info}", "isclose"); return
            if ic and not wide[j]:
                fail("monotone", f"isclose true for (rtol,atol) but false for larger tolerances: {info} "
                     f"rfac={subs[i]['rfac']} afac={subs[i]['afac']}", "isclose"); return
            if r["isclose_rev_args"][j] != ic:
                fail("spelling", f"isclose positional vs keyword tolerances differ: {info}", "isclose"); return
            if sa == sb:
                want = all(bool(numpy.isclose(x, y, subs[i]["rtol"], subs[i]["atol"])) for x, y in zip(a_, b_))
                if ic != want:
                    fail("same_system", f"isclose is {ic} but per-coordinate |a-b| <= atol + rtol*|b| gives {want}: {info}",
                         "isclose"); return
            if "numpy.isclose" in extra and extra["numpy.isclose"][j] != ic:
                fail("spelling", f"numpy.isclose gives {extra['numpy.isclose'][j]} but .isclose gives {ic}: {info}", "isclose")
                return
            m = subs[i]["mask"]
            if any(m) and not all(m):
                ctx.nontrivial(key=[a_, b_, subs[i]["rtol"], subs[i]["atol"]], sample={"a": a_, "b": b_, "mask": m, "pert": subs[i]["pert"]})
            ctx.stratum("changed:" + str(sum(m)))
        for nm, ref_nm in (("numpy.isclose(generic, momentum)", None), ("numpy.isclose(object, array)", "obj.isclose(array)"),
                           ("numpy.equal(object, array)", "obj.equal(array)")):
            if nm in extra:
                want_ = r["isclose"] if ref_nm is None else extra[ref_nm]
                if extra[nm] != want_:
                    fail("spelling", f"{nm} gives {extra[nm]} but the method form gives {want_} (a={RA[idx[0]]} b rows={RB[:2]}...)",
                         "isclose" if "isclose" in nm else "equal"); return
        if "obj.isclose(array)" in extra and extra["obj.isclose(array)"][0] != r["isclose"][0]:
            fail("spelling", f"object.isclose(array)[0] gives {extra['obj.isclose(array)'][0]} but array.isclose(array)[0] gives {r['isclose'][0]}",
                 "isclose"); return
        for nm in ("allclose", "numpy.allclose", "numpy.allclose(generic, momentum)"):
            if nm in extra and extra[nm] != all(r["isclose"]):
                fail("spelling", f"{nm} gives {extra[nm]} but all(isclose) is {all(r['isclose'])}", "allclose"); return
    if be in ("numpy", "awkward") and sa == sb:
        _big_integers(ctx, sa, variant, fail)
    ctx.evaluations -= 1


def _big_integers(ctx, sa, variant, fail):
    """int64 coordinates beyond 2**53 (identifiers, time stamps, fixed-point values): equal exactly when the stored integers are
    equal, for NumPy, Awkward and mixed pairs, operator and method forms alike"""
    import awkward as ak

    d = len(sa) + 1
    big = 2**53
    RA = [tuple(big + 2 * j + 4 * k for k in range(d)) for j in range(3)]
    RB = [RA[0], tuple(x + 1 if k == 0 else x for k, x in enumerate(RA[1])), tuple(x + 1 if k == d - 1 else x for k, x in enumerate(RA[2]))]
    want = [True, False, False]
    An, Bn = build.np_array(sa, RA, dtype=numpy.int64), build.np_array(sa, RB, dtype=numpy.int64)
    Aa, Ba = build.ak_flat(sa, RA, dtype=numpy.int64), build.ak_flat(sa, RB, dtype=numpy.int64)
    forms = {"a == b": lambda a, b: a == b, "a != b": lambda a, b: ~(a != b), "a.equal(b)": lambda a, b: a.equal(b),
             "a.not_equal(b)": lambda a, b: ~a.not_equal(b), "numpy.equal(a, b)": lambda a, b: numpy.equal(a, b)}
    for pname, (a, b) in {"numpy, numpy": (An, Bn), "awkward, awkward": (Aa, Ba), "awkward, numpy": (Aa, Bn), "numpy, awkward": (An, Ba)}.items():
        for fname, f in forms.items():
            ctx.evaluation()
            try:
                got = [bool(x) for x in ak.to_list(f(a, b))]
            except Exception:  # noqa: BLE001
                ctx.exclude("big_integer_form_not_supported")
                continue
            if got != want:
                fail("same_system", f"{fname} on int64 operands ({pname}) beyond 2**53 gives {got}; the stored integers are equal in "
                     f"{want} (a={RA}, b={RB})", "equal" if "not" not in fname and "!=" not in fname else "not_equal")
                return


def describe(cell, case):
    return case
