"""C16 - operations never modify their operands (bit-for-bit snapshots before/after)."""

from __future__ import annotations

import copy
import json
import pickle
import zlib

import numpy
from hypothesis import strategies as st

from vcheck import build, catalog, gen, lattice, obs, opcheck, refmodel as R, snapshot
from vcheck.catalog import OPS
from vcheck.props import c03

import awkward as ak  # noqa: E402
import vector  # noqa: E402

PID = "C16"
SHRINK = False
RULE = (
    "Cells = (catalogued operation | conversion | reduction | ufunc/operator | protocol call) x operand dimensions x K "
    "configurations (deterministic hash covering: object, NumPy (6,), (2,3), strided view of a larger base, transposed view, "
    "interior slice; Awkward flat/jagged/nested/option-record/option-list/regular arrays and single records; second operand "
    "same layout / single object / single record / other backend; generic and momentum spellings; extra fields; scalar "
    "arguments as numbers or arrays). Before the call every operand and array-valued scalar argument is snapshotted: object = "
    "class, coordinate classes, stored values and their types; NumPy = class, dtype descr, field names and offsets, shape, "
    "strides, bytes, bytes of the base array of a view; Awkward = form JSON, every buffer's bytes, fields, behavior. After the "
    "call - returned or raised - the snapshots must be identical. Non-trivial = an operand that is a view sharing memory with "
    "a live base array, or a mixed-backend call; distinct by (cell, input)."
)
ASSUMPTIONS = [
    "in-place operators and coordinate assignment are the documented exceptions and are not called here (C15)",
    "snapshots compare bytes: NaN payloads and -0.0 are significant",
]

VIEW_KINDS = build.NP_VIEW_LAYOUTS


def reduce_candidates(cell, case):
    return iter(())


def _like_other(v, w, s):
    return v.like(w)


def _sum_axis(ax, kd=False):
    def f(v, w, s):
        if isinstance(v, ak.Array):
            return ak.sum(v, axis=ax, keepdims=kd)
        if isinstance(v, numpy.ndarray):
            return v.sum(axis=(None if ax is None else (ax if v.ndim > ax else 0)), keepdims=kd)
        raise TypeError("not an array")
    return f


# extra calls beyond the catalogue: name -> (needs_other, callable(v, w, s))
def _conv(name, **kw):
    return lambda v, w, s: getattr(v, name)(**kw)


EXTRA = {
    "to_xy": (False, _conv("to_xy")), "to_rhophi": (False, _conv("to_rhophi")),
    "to_xyz": (False, _conv("to_xyz")), "to_rhophieta": (False, _conv("to_rhophieta")),
    "to_xythetat": (False, _conv("to_xythetat")), "to_rhophietatau": (False, _conv("to_rhophietatau")),
    "to_ptphietamass": (False, _conv("to_ptphietamass")), "to_pxpypzenergy": (False, _conv("to_pxpypzenergy")),
    "to_Vector2D": (False, _conv("to_Vector2D")), "to_Vector3D": (False, _conv("to_Vector3D")),
    "to_Vector4D": (False, _conv("to_Vector4D")), "to_2D": (False, _conv("to_2D")), "to_3D": (False, _conv("to_3D")),
    "to_4D": (False, _conv("to_4D")),
    "like": (True, _like_other),
    "sum": (False, _sum_axis(None)), "sum0": (False, _sum_axis(0)), "sum_last_keep": (False, _sum_axis(-1, True)),
    "count_nonzero": (False, lambda v, w, s: numpy.count_nonzero(v) if isinstance(v, numpy.ndarray) else ak.count_nonzero(v, axis=None)),
    "ak_count": (False, lambda v, w, s: ak.count(v, axis=-1)),
    "np_sqrt": (False, lambda v, w, s: numpy.sqrt(v)), "np_cbrt": (False, lambda v, w, s: numpy.cbrt(v)),
    "np_power": (False, lambda v, w, s: numpy.power(v, 3)), "abs": (False, lambda v, w, s: abs(v)),
    "pow2": (False, lambda v, w, s: v**2), "op_add": (True, lambda v, w, s: v + w), "op_sub": (True, lambda v, w, s: v - w),
    "op_mul": (False, lambda v, w, s: v * 1.75), "op_rmul": (False, lambda v, w, s: -2.5 * v), "op_div": (False, lambda v, w, s: v / 1.75),
    "op_neg": (False, lambda v, w, s: -v), "op_eq": (True, lambda v, w, s: v == w), "op_ne": (True, lambda v, w, s: v != w),
    "allclose": (True, lambda v, w, s: v.allclose(w)),
    "np_isclose": (True, lambda v, w, s: numpy.isclose(v, w)),
    "asarray": (False, lambda v, w, s: numpy.asarray(v)), "asanyarray": (False, lambda v, w, s: numpy.asanyarray(v)),
    "repr": (False, lambda v, w, s: (repr(v), str(v))),
    "pickle": (False, lambda v, w, s: pickle.loads(pickle.dumps(v))), "deepcopy": (False, lambda v, w, s: copy.deepcopy(v)),
    "getitem0": (False, lambda v, w, s: v[0]), "field": (False, lambda v, w, s: v["x"] if not isinstance(v, vector.backends.object.VectorObject) else v.x),
    "add_wrongdim": (True, lambda v, w, s: v.add(w.to_Vector2D() if obs.dim_of(v) > 2 else w.to_Vector3D())),
    "iter_props": (False, lambda v, w, s: [getattr(v, n) for n in ("x", "y", "rho", "phi")]),
}


def cells(tier):
    out = []
    k_total = 6 if tier == "quick" else 30
    kinds = lattice.ARRAY_KINDS + ("record", "object")
    for op in OPS.values():
        if "synonym" in op.tags and tier == "quick":
            continue
        for da in op.self_dims:
            for db in op.other_dims(da):
                for k, cfg in enumerate(c03._configs(op, da, db, k_total)):
                    cfg = dict(cfg)
                    h = zlib.crc32(f"{op.name}{da}{db}{k}".encode())
                    if not db or cfg["kb"] == cfg["ka"] or True:
                        # make sure views and single objects appear as first operand too
                        cfg["ka"] = kinds[(h >> 4) % len(kinds)] if k % 2 else cfg["ka"]
                        if db and cfg.get("kb") not in ("object", "record") and (h >> 9) % 3 == 0:
                            cfg["kb"] = cfg["ka"] if cfg["ka"] in lattice.ARRAY_KINDS else cfg["kb"]
                        if "axis" in op.tags and cfg["ka"] in ("object", "record") and cfg.get("kb") in lattice.ARRAY_KINDS:
                            cfg["kb"] = "object"
                        if cfg["ka"] in ("object", "record"):
                            cfg["scal"] = "py"
                    cfg["id"] = f"{op.name}|{da}|{db or ''}|{k}"
                    cfg["extra_call"] = None
                    awk_involved = any(k_ in build.AK_LAYOUTS or k_ == "record" for k_ in (cfg["ka"], cfg.get("kb")))
                    if (h >> 19) % 3 == 0 and not cfg.get("ints") and not awk_involved:
                        # NumPy operands stored in non-native byte order
                        if cfg["ka"] in build.NP_LAYOUTS + build.NP_VIEW_LAYOUTS:
                            cfg["dtype_a"] = "be"
                        if cfg.get("kb") in build.NP_LAYOUTS + build.NP_VIEW_LAYOUTS:
                            cfg["dtype_b"] = "be"
                    out.append(cfg)
    for name, (needs_other, _) in EXTRA.items():
        for d in (2, 3, 4):
            for k in range(len(kinds)):
                h = zlib.crc32(f"{name}{d}{k}".encode())
                ka = kinds[k]
                S = R.SYSTEMS[d]
                cfg = {"id": f"x:{name}|{d}|{k}", "op": "__extra__", "extra_call": name, "da": d, "db": d if needs_other else None,
                       "sa": R.sysname(S[(h >> 3) % len(S)]), "sb": R.sysname(S[(h >> 7) % len(S)]) if needs_other else None,
                       "fa": "gm"[(h >> 11) % 2], "fb": "gm"[(h >> 12) % 2], "ka": ka,
                       "kb": (ka if (h >> 13) % 2 else ("object", "record", "np1", "flat")[(h >> 14) % 4]) if needs_other else None,
                       "scal": "py", "extra": bool((h >> 16) % 2), "alt": (h >> 17) % 3,
                       "spa": "momentum" if ((h >> 11) % 2 and ka in build.AK_LAYOUTS + ("record",) and (h >> 18) % 2) else "generic",
                       "spb": "generic"}
                if (h >> 20) % 2 == 0 and ka in build.NP_LAYOUTS + build.NP_VIEW_LAYOUTS and cfg.get("kb") not in build.AK_LAYOUTS + ("record",):
                    cfg["dtype_a"] = "be"
                out.append(cfg)
    # keyword and scalar arguments handed over as 0-d arrays are operands too: shape, dtype and bytes stay as they were
    for d in (2, 3, 4):
        for ka in ("np1", "np2", "flat", "jagged", "object"):
            S = R.SYSTEMS[d]
            h = zlib.crc32(f"kw0d{d}{ka}".encode())
            out.append({"id": f"kw0d|{d}|{ka}", "op": "__extra__", "group": "kw0d", "extra_call": None, "da": d, "db": None,
                        "sa": R.sysname(S[h % len(S)]), "fa": "gm"[(h >> 5) % 2], "ka": ka, "scal": "py"})
    return out


def _kw0d(cell, elems, ctx):
    d, ka = cell["da"], cell["ka"]
    sa = opcheck.parse_system(cell["sa"])
    rows = lattice.rows_for(sa, [e["a"]["c"] for e in elems], d)
    if rows is None:
        ctx.exclude("operand_not_representable")
        return
    calls = [("scale", lambda v, k: v.scale(k["a"]), 1), ("rotateZ", lambda v, k: v.rotateZ(k["a"]), 1), ("v * s", lambda v, k: v * k["a"], 1)]
    if d == 2:
        calls += [("to_Vector3D(z=)", lambda v, k: v.to_Vector3D(z=k["a"]), 1), ("to_Vector3D(theta=)", lambda v, k: v.to_Vector3D(theta=k["a"]), 1),
                  ("to_Vector3D(eta=)", lambda v, k: v.to_Vector3D(eta=k["a"]), 1), ("to_3D(pz=)", lambda v, k: v.to_3D(pz=k["a"]), 1),
                  ("to_Vector4D(z=, t=)", lambda v, k: v.to_Vector4D(z=k["a"], t=k["b"]), 2), ("to_xyzt(z=, t=)", lambda v, k: v.to_xyzt(z=k["a"], t=k["b"]), 2)]
    if d == 3:
        calls += [("to_Vector4D(t=)", lambda v, k: v.to_Vector4D(t=k["a"]), 1), ("to_Vector4D(tau=)", lambda v, k: v.to_Vector4D(tau=k["a"]), 1),
                  ("to_4D(mass=)", lambda v, k: v.to_4D(mass=k["a"]), 1), ("to_xyzt(t=)", lambda v, k: v.to_xyzt(t=k["a"]), 1)]
    if d == 4:
        calls += [("boostZ(beta=)", lambda v, k: v.boostZ(beta=k["a"] / 8), 1), ("boostX(gamma=)", lambda v, k: v.boostX(gamma=1 + abs(k["a"])), 1)]
    for dtype in (numpy.float64, numpy.int64, numpy.float32):
        for what, fn, nk in calls:
            v = lattice.make_operand(ka, sa, rows, cell["fa"] == "m")
            kws = {"a": numpy.array(1.75 if dtype is not numpy.int64 else 2, dtype=dtype), "b": numpy.array(7.5 if dtype is not numpy.int64 else 9, dtype=dtype)}
            before = {k: (a_.shape, a_.dtype.str, a_.tobytes(), a_.flags.writeable) for k, a_ in kws.items()}
            ctx.evaluation()
            try:
                with numpy.errstate(all="ignore"):
                    fn(v, kws)
                outcome = "returned"
            except Exception as e:  # noqa: BLE001
                outcome = f"raised {type(e).__name__}"
            after = {k: (a_.shape, a_.dtype.str, a_.tobytes(), a_.flags.writeable) for k, a_ in kws.items()}
            if before != after:
                ch = [k for k in before if before[k] != after[k]][0]
                ctx.fail("mutated", f"{what} on a {d}D {ka} operand {outcome} and changed its 0-d {numpy.dtype(dtype).name} argument: "
                         f"(shape, dtype, bytes, writeable) {before[ch]} -> {after[ch]}", op=what, variant=f"{d}{cell['sa']}", backend=ka)
                return
    ctx.nontrivial(sample={"zero_d_arguments_on": f"{d}D {ka}", "calls": [c[0] for c in calls]})
    ctx.evaluations -= 1


def examples(cell, tier):
    return 1 if tier == "quick" else 3


def strategy(cell, tier):
    if cell["op"] == "__extra__":
        one = st.fixed_dictionaries({"a": gen.vec(("moderate", "octant")), "b": gen.vec(("moderate",)), "s": st.just({})})
    else:
        one = opcheck.case_strategy(OPS[cell["op"]], cell["db"], "f64", None)
    return st.tuples(*([one] * lattice.N)).map(list)


class _XOp:
    """minimal stand-in for a catalogue entry, for the extra calls"""

    def __init__(self, name, d):
        self.name = name
        self.scalars = ()
        self.momentum = False
        self.tags = ()
        self.result = "any"

    def pre(self, a, b, s):
        return True


def check_case(cell, elems, ctx, poison=None):
    if cell.get("group") == "kw0d":
        return _kw0d(cell, elems, ctx)
    if cell["op"] == "__extra__":
        name = cell["extra_call"]
        call = EXTRA[name][1]
        OPS["__extra__"] = _XOp(name, cell["da"])
        cfg = dict(cell, _call=call)
        opname = name
    else:
        op = OPS[cell["op"]]
        if "order" in op.scalars:
            for e in elems:
                e["s"]["order"] = elems[0]["s"]["order"]
        cfg = cell
        opname = op.name
    if poison is None and not cell.get("ints"):
        # the same call again with NaN / inf among the stored coordinates of the first, then of the second operand (missing-data
        # markers, results of singular earlier steps): still nothing may be written to an operand
        h = zlib.crc32(("poison" + cell["id"]).encode())
        for which in ("a", "b") if cell.get("db") else ("a",):
            cells_ = [[i_, (h >> (3 * i_)) % 4, ("nan", "inf", "nan", "-inf")[(h >> (2 * i_ + 5)) % 4]] for i_ in range(0, 6, 2)]
            check_case(cell, [json.loads(json.dumps(e)) for e in elems], ctx, poison={"which": which, "cells": cells_})
    snaps = {}
    if poison is not None:
        cfg = dict(cfg, poison=poison)

    def before(o):
        snaps["A"] = snapshot.snap(o.A)
        snaps["B"] = snapshot.snap(o.B)
        snaps["sc"] = snapshot.snap(o.sc)

    try:
        if cell["op"] == "__extra__":
            OPS["__extra__"] = _XOp(cell["extra_call"], cell["da"])
        o = lattice.evaluate(cfg, elems, want_ref=False, before=before)
    finally:
        OPS.pop("__extra__", None)
    if o.skipped:
        ctx.exclude(o.skipped)
        return
    be = c03._backend_label(cell) if cell.get("kb") or True else cell["ka"]
    variant = f"{cell['da']}{cell['sa']}" + (f"+{cell['db']}{cell['sb']}" if cell.get("db") else "")
    after = {"A": snapshot.snap(o.A), "B": snapshot.snap(o.B), "sc": snapshot.snap(o.sc)}
    for which, label in (("A", "first operand"), ("B", "second operand"), ("sc", "scalar arguments")):
        d = snapshot.diff(snaps[which], after[which])
        if d is not None:
            outcome = f"raised {type(o.exc).__name__}" if o.exc is not None else "returned"
            ctx.fail("mutated", f"{opname} ({c03._desc(cell) if cell["op"] != "__extra__" else cell['id'] + ' ' + cell['ka']}) {outcome} and changed its {label}: {d}",
                     op=opname, variant=variant, backend=be)
            return
    if o.exc is not None:
        ctx.note("calls_that_raised")
    view = cell["ka"] in VIEW_KINDS or cell.get("kb") in VIEW_KINDS
    mixed = cell.get("kb") not in (None, cell["ka"])
    if view or mixed:
        ctx.nontrivial(sample={"call": opname, "config": {k: v for k, v in cell.items() if k in ("ka", "kb", "sa", "sb", "fa", "fb", "scal")},
                               "raised": type(o.exc).__name__ if o.exc is not None else None})
    ctx.stratum(cell["ka"] + ("+" + cell["kb"] if cell.get("kb") else ""))


def describe(cell, case):
    return case
