"""C15 - in-place updates of object vectors match their functional equivalents.

Stateful (model-based) testing: a Hypothesis RuleBasedStateMachine drives one vector object
through coordinate assignments and in-place operators; an explicit model of the stored
coordinate tuples is compared after every step."""

from __future__ import annotations

import math
import zlib

import mpmath

import numpy
from hypothesis import strategies as st
from hypothesis.stateful import RuleBasedStateMachine, initialize, rule, run_state_machine_as_test
from mpmath import mpf

from vcheck import env, gen, mpbackend, obs, opcheck, refmodel as R, runner
from vcheck.findings import Violation

import vector  # noqa: E402

PID = "C15"
SHRINK = True
RULE = (
    "Cells = machine {float64 object, 60-digit object} x dimension x flavor x shard. A case is a generated history: an initial "
    "vector in any stored system, then up to 30 (quick) / 60 (thorough) steps drawn from: assignment to any settable coordinate "
    "(x y rho phi z theta eta t tau and px py pt pz E e energy M m mass), += and -= with a vector operand in any stored system "
    "and flavor, *= and /= with a scalar, and invalid steps (operand of another dimension, non-vector operand, zero divisor, "
    "NumPy-array operand). Model = the triple of stored coordinate tuples predicted from readings taken before the step. "
    "Invariant after every step: the assigned coordinate reads back exactly; its partner in the same group equals its previous "
    "reading exactly; the other groups' stored tuples are the same objects; in-place operators keep identity, class and "
    "coordinate classes and the state equals the functional result (x + y, x * s, ...) converted by the reference converters "
    "(mp 1e-40, f64 1e-9 on well-conditioned states); a step that raises leaves all stored tuples untouched. Non-trivial = a "
    "history with an assignment that switches a group's coordinate type followed by an in-place operator; distinct by history."
)
ASSUMPTIONS = [
    "float64 machine: value comparison of in-place results only on well-conditioned states (0.05<theta<pi-0.05, clearly off the light cone); exact invariants always",
    "results not representable in the vector's own stored system (theta/eta on the axis, tau with t<0) are excluded from the value comparison",
]

SETTABLE = {2: ("x", "y", "rho", "phi"), 3: ("x", "y", "rho", "phi", "z", "theta", "eta"),
            4: ("x", "y", "rho", "phi", "z", "theta", "eta", "t", "tau")}
MOM_SET = {"px": "x", "py": "y", "pt": "rho", "pz": "z", "E": "t", "e": "t", "energy": "t", "M": "tau", "m": "tau", "mass": "tau"}
GROUP = {"x": 0, "y": 0, "rho": 0, "phi": 0, "z": 1, "theta": 1, "eta": 1, "t": 2, "tau": 2}
AZ_PARTNER = {"x": "y", "y": "x", "rho": "phi", "phi": "rho"}
AZ_KIND = {"x": "xy", "y": "xy", "rho": "rhophi", "phi": "rhophi"}


class Sim:
    """deterministic executor of a history (used by the state machine and by replays)"""

    def __init__(self, cell, ctx):
        self.cell = cell
        self.ctx = ctx
        self.mp = cell["machine"] == "mp"
        self.d = cell["d"]
        self.mom = cell["fa"] == "m"
        self.v = None
        self.log = []
        self.switched = False
        self.nontrivial = False
        self.be = "object-mp" if self.mp else "object-f64"

    def num(self, x):
        return mpf(x) if self.mp else float(x)

    def fail(self, kind, msg, op):
        self.ctx.fail(kind, f"[{self.cell['id']}] step {len(self.log)}: {msg}; history={self.log[-6:]}", op=op,
                      variant=f"{self.d}{R.sysname(obs.system_of(self.v)) if self.v is not None else ''}", backend=self.be)

    def containers(self):
        v = self.v
        out = [v.azimuthal]
        if self.d >= 3:
            out.append(v.longitudinal)
        if self.d == 4:
            out.append(v.temporal)
        return out

    def init(self, system, cart):
        self.log.append(["init", R.sysname(system), list(cart)])
        c = tuple(mpf(x) for x in cart[: self.d])
        if not R.representable(system, c):
            system = opcheck.CART[self.d]
        stv = R.from_cartesian(system, c)
        self.v = mpbackend.make(system, stv if self.mp else tuple(float(x) for x in stv), self.mom, self.mp)
        self.ident = id(self.v)
        self.cls = type(self.v)

    # ---------------------------------------------------------------- assignment
    def assign(self, name, value):
        if getattr(self, "dead", False):
            return
        self.log.append(["assign", name, value])
        self.ctx.evaluation()
        v = self.v
        geo = MOM_SET.get(name, name)
        if geo not in SETTABLE[self.d] or (name in MOM_SET and not self.mom):
            return
        g = GROUP[geo]
        before = self.containers()
        sys_before = obs.system_of(v)
        partner_val = None
        try:
            if g == 0:
                partner_val = getattr(v, AZ_PARTNER[geo])
        except ZeroDivisionError:
            return
        val = self.num(value)
        try:
            setattr(v, name, val)
        except ZeroDivisionError:
            self._unchanged(before, f"v.{name} = {value}")
            return
        except Exception as e:  # noqa: BLE001
            self.fail("assign_raises", f"v.{name} = {value!r} raised {type(e).__name__}: {e!s:.150}", name)
            return
        after = self.containers()
        sys_after = obs.system_of(v)
        # the other groups' stored tuples are the same objects
        for k in range(len(after)):
            if k != g and after[k] is not before[k]:
                self.fail("other_group_changed", f"v.{name} = {value!r} replaced the stored {['azimuthal', 'longitudinal', 'temporal'][k]} "
                          f"coordinates {tuple(before[k])} -> {tuple(after[k])}", name)
                return
        want_kind = AZ_KIND[geo] if g == 0 else geo
        if sys_after[g] != want_kind:
            self.fail("coordinate_type", f"after v.{name} = ... the group is stored as {sys_after[g]}, expected {want_kind}", name)
            return
        got = getattr(v, name)
        if not (got == val) or type(got) is not type(val):
            self.fail("readback", f"v.{name} = {val!r} reads back {got!r}", name)
            return
        got_geo = getattr(v, geo)
        if not (got_geo == val):
            self.fail("readback", f"v.{name} = {val!r} but v.{geo} reads {got_geo!r}", name)
            return
        if g == 0:
            p = getattr(v, AZ_PARTNER[geo])
            if not (p == partner_val or (p != p and partner_val != partner_val)):
                self.fail("partner_changed", f"v.{name} = {val!r} changed the partner {AZ_PARTNER[geo]}: {partner_val!r} -> {p!r}", name)
                return
            st_ = tuple(after[0])
            want = (val, partner_val) if geo in ("x", "rho") else (partner_val, val)
            if not all((a == b) or (a != a and b != b) for a, b in zip(st_, want)):
                self.fail("model", f"v.{name} = {val!r}: stored azimuthal {st_}, model predicts {want}", name)
                return
        else:
            if tuple(after[g]) != (val,):
                self.fail("model", f"v.{name} = {val!r}: stored {tuple(after[g])}", name)
                return
        if id(v) != self.ident or type(v) is not self.cls:
            self.fail("identity", "assignment changed the object's identity or class", name)
            return
        if sys_after[g] != sys_before[g]:
            self.switched = True

    def _unchanged(self, before, what):
        after = self.containers()
        for k in range(len(after)):
            if after[k] is not before[k] and tuple(after[k]) != tuple(before[k]):
                self.fail("changed_by_failed_step", f"{what} raised but the stored {['azimuthal', 'longitudinal', 'temporal'][k]} "
                          f"coordinates changed {tuple(before[k])} -> {tuple(after[k])}", "inplace")
                return False
        return True

    # ---------------------------------------------------------------- in-place operators
    def _well_conditioned(self, cart):
        if self.mp:
            return True
        c = [float(x) for x in cart]
        if any(math.isnan(x) or math.isinf(x) for x in c):
            return False
        if self.d >= 3:
            rho = math.hypot(c[0], c[1])
            mag = math.sqrt(rho * rho + c[2] * c[2])
            if mag == 0 or rho < 0.05 * mag:
                return False
        else:
            if math.hypot(c[0], c[1]) < 1e-6:
                return False
        if self.d == 4:
            m2 = c[0] ** 2 + c[1] ** 2 + c[2] ** 2
            if abs(c[3] ** 2 - m2) < 1e-2 * (c[3] ** 2 + m2):
                return False
        return max(abs(x) for x in c) < 1e8 and max(abs(x) for x in c) > 1e-8

    def inplace(self, opname, operand):
        """operand: ["vec", dim, sysname, cart, momentum] | ["scalar", value] | ["bad", kind]"""
        if getattr(self, "dead", False):
            return
        self.log.append(["inplace", opname, operand])
        self.ctx.evaluation()
        v = self.v
        before = self.containers()
        before_vals = [tuple(c) for c in before]
        sys_before = obs.system_of(v)
        valid = True
        if operand[0] == "vec":
            _, od, osys, ocart, omom = operand
            system = opcheck.parse_system(osys)
            c = tuple(mpf(x) for x in ocart[:od])
            if not R.representable(system, c):
                system = opcheck.CART[od]
            stv = R.from_cartesian(system, c)
            w = mpbackend.make(system, stv if self.mp else tuple(float(x) for x in stv), omom, self.mp)
            valid = od == self.d and opname in ("+=", "-=")
        elif operand[0] == "scalar":
            w = self.num(operand[1])
            valid = opname in ("*=", "/=") and operand[1] != 0
            if opname == "/=" and operand[1] == 0:
                valid = False
        else:
            kind = operand[1]
            if kind == "none":
                w = None
            elif kind == "str":
                w = "abc"
            elif kind == "array":
                w = vector.array({"x": [1.0, 2.0], "y": [3.0, 4.0]}) if self.d == 2 else (
                    vector.array({"x": [1.0, 2.0], "y": [3.0, 4.0], "z": [1.0, 1.0]}) if self.d == 3 else
                    vector.array({"x": [1.0, 2.0], "y": [3.0, 4.0], "z": [1.0, 1.0], "t": [9.0, 9.0]}))
            else:
                w = [1.0, 2.0]
            valid = False
        # functional equivalent first (never mutates, C16)
        func = None
        func_exc = None
        try:
            if opname == "+=":
                func = v + w
            elif opname == "-=":
                func = v - w
            elif opname == "*=":
                func = v * w
            else:
                func = v / w
        except Exception as e:  # noqa: BLE001
            func_exc = e
        try:
            if opname == "+=":
                v += w
            elif opname == "-=":
                v -= w
            elif opname == "*=":
                v *= w
            else:
                v /= w
            raised = None
        except Exception as e:  # noqa: BLE001
            raised = e
        if raised is not None:
            if self.mp and isinstance(raised, ZeroDivisionError):
                # mpmath raises where the float64 library returns inf/nan: a singular intermediate value of the 60-digit
                # tier, possibly in the middle of the conversion back - the rest of this history has no defined model
                self.ctx.exclude("mp_singular")
                self.dead = True
                return
            if not self._unchanged(before, f"v {opname} {type(w).__name__}"):
                return
            if valid and not isinstance(raised, ZeroDivisionError):
                self.fail("inplace_raises", f"v {opname} {operand} raised {type(raised).__name__}: {raised!s:.150}", opname)
            return
        if v is not self.v or id(v) != self.ident:
            self.fail("identity", f"v {opname} ... rebound the name to a different object ({type(v).__name__})", opname)
            self.v = self.v
            return
        if not valid and func_exc is not None and operand[0] != "scalar":
            self.fail("invalid_accepted", f"v {opname} {operand} succeeded although the functional form raises {type(func_exc).__name__}", opname)
            return
        if type(v) is not self.cls:
            self.fail("identity", f"v {opname} ... changed the class to {type(v).__name__}", opname)
            return
        if obs.system_of(v) != sys_before:
            self.fail("coordinate_type", f"v {opname} ... changed the stored system {sys_before} -> {obs.system_of(v)}", opname)
            return
        if func is None or not isinstance(func, vector.backends.object.VectorObject):
            return
        # state == functional result expressed in v's own system
        try:
            ref = obs.cart_of(func)
            if not R.representable(sys_before, ref):
                self.ctx.exclude("result_not_representable")
                return
            if not self._well_conditioned(ref) or not all(obs.finite(x) for x in ref):
                self.ctx.exclude("ill_conditioned_state")
                return
            got = obs.cart_of(v)
        except ZeroDivisionError:
            self.ctx.exclude("singular")
            return
        tol = opcheck.MP_TOL if self.mp else opcheck.F64_TOL
        if not opcheck.vec_equiv(obs.system_of(v), obs.stored(v), ref, tol, R.scale_of(ref)):
            self.fail("inplace_value", f"after v {opname} {operand}: state {obs.system_of(v)}{opcheck.fmt(obs.stored(v))} = {opcheck.fmt(got)} "
                      f"but the functional result is {opcheck.fmt(ref)} (before: {before_vals})", opname)
            return
        if self.switched:
            self.nontrivial = True


def _vec_operand(d):
    return st.builds(lambda od, si, v, m: ["vec", od, R.sysname(R.SYSTEMS[od][si % len(R.SYSTEMS[od])]), v["c"], m],
                     st.sampled_from((d, d, d, d, 2, 3, 4)), st.integers(0, 11), gen.vec(("moderate", "octant", "spacelike", "near_z_axis")),
                     st.booleans())


def make_machine(cell, ctx, holder):
    d = cell["d"]
    names = list(SETTABLE[d]) + [k for k, g in MOM_SET.items() if g in SETTABLE[d]]

    class Machine(RuleBasedStateMachine):
        def __init__(self):
            super().__init__()
            self.sim = Sim(cell, ctx)
            holder["sim"] = self.sim

        @initialize(si=st.integers(0, 11), v=gen.vec(("moderate", "octant", "spacelike", "near_xy_plane")))
        def start(self, si, v):
            self.sim.init(R.SYSTEMS[d][si % len(R.SYSTEMS[d])], v["c"])

        @rule(name=st.sampled_from(names), value=st.one_of(gen.positive_factor(), st.floats(0.1, 3.0)))
        def assign(self, name, value):
            geo = MOM_SET.get(name, name)
            if geo in ("x", "y", "z", "eta", "t", "tau"):
                # tau < 0 is the stored spelling of a space-like vector
                value = value if (int(value * 1000) % 2) else -value
            if geo == "rho" and int(value * 1000) % 4 == 0:
                # a negative radius is accepted and stored verbatim by constructors and setters alike
                value = -value
            if geo == "theta":
                value = 0.1 + (value % 2.9)
            if geo == "phi":
                value = ((value * 1.7) % 6.0) - 3.0
            self.sim.assign(name, value)

        @rule(opname=st.sampled_from(("+=", "-=")), operand=_vec_operand(d))
        def addsub(self, opname, operand):
            self.sim.inplace(opname, operand)

        @rule(opname=st.sampled_from(("+=", "-=")), mode=st.sampled_from(("long", "az", "both")), other=gen.vec(("moderate",)))
        def addsub_coinciding(self, opname, mode, other):
            """an operand chosen so that the Cartesian numbers of the result coincide with the numbers the vector stores in
            another coordinate type (new z == stored eta / theta, new (x, y) == stored (rho, phi)): the update still has to
            happen"""
            sim = self.sim
            v = getattr(sim, "v", None)
            if v is None or getattr(sim, "dead", False) or sim.mp:
                return
            sysv = obs.system_of(v)
            try:
                c = [float(v.x), float(v.y)] + ([float(v.z)] if d >= 3 else []) + ([float(v.t)] if d == 4 else [])
            except Exception:  # noqa: BLE001
                return
            if not all(math.isfinite(x) for x in c):
                return
            sgn = 1.0 if opname == "+=" else -1.0
            w = [float(x) for x in other["c"][:d]]
            if mode in ("long", "both") and d >= 3 and sysv[1] != "z":
                w[2] = sgn * (float(tuple(v.longitudinal.elements)[0]) - c[2])
            if mode in ("az", "both") and sysv[0] == "rhophi":
                a0, a1 = (float(x) for x in tuple(v.azimuthal.elements))
                w[0], w[1] = sgn * (a0 - c[0]), sgn * (a1 - c[1])
            cart = w + [0.0] * (4 - len(w))
            sim.inplace(opname, ["vec", d, R.sysname(opcheck.CART[d]), cart, False])

        @rule(opname=st.sampled_from(("*=", "/=")), value=st.one_of(gen.factor(), st.sampled_from((2.0, -1.0, 0.5))))
        def muldiv(self, opname, value):
            self.sim.inplace(opname, ["scalar", value])

        @rule(opname=st.sampled_from(("+=", "-=", "*=", "/=")),
              operand=st.one_of(st.sampled_from((["bad", "none"], ["bad", "str"], ["bad", "array"], ["bad", "list"], ["scalar", 0.0])),
                                _vec_operand(d)))
        def invalid(self, opname, operand):
            # array-like *factors* broadcast into an object holding arrays: unspecified, not exercised
            if opname in ("*=", "/=") and operand[0] == "bad" and operand[1] in ("array", "list"):
                operand = ["bad", "none"]
            self.sim.inplace(opname, operand)

        def teardown(self):
            if self.sim.nontrivial:
                ctx.nontrivial(key=self.sim.log, sample={"history": self.sim.log[:8], "length": len(self.sim.log)})

    return Machine


def cells(tier):
    out = []
    shards = 3 if tier == "quick" else 8
    for machine in ("f64", "mp"):
        for d in (2, 3, 4):
            for fa in "gm":
                for sh in range(shards):
                    out.append({"id": f"{machine}|{d}|{fa}|{sh}", "machine": machine, "d": d, "fa": fa, "shard": sh})
    for d in (2, 3, 4):
        for i, sa in enumerate(R.SYSTEMS[d]):
            out.append({"id": f"sympy|{d}{R.sysname(sa)}", "machine": "sympy", "d": d, "sa": R.sysname(sa), "fa": "gm"[i % 2]})
    return out


def examples(cell, tier):
    return 1 if tier == "quick" else 6


def strategy(cell, tier):
    one = st.fixed_dictionaries({"a": gen.vec(("moderate", "octant")), "b": gen.vec(("moderate", "octant")), "k": st.floats(0.2, 4.0)})
    return st.lists(one, min_size=4, max_size=4)


def _sympy_inplace(cell, points, ctx):
    """in-place operators of the SymPy backend (its own _replace_data): after v += w, v -= w, v *= k, v /= k the symbolic
    vector keeps identity, class and coordinate system and its stored expressions evaluate to the functional result"""
    import sympy

    from vcheck.props import c08

    d = cell["d"]
    sa = opcheck.parse_system(cell["sa"])
    sb = R.SYSTEMS[d][zlib.crc32(cell["id"].encode()) % len(R.SYSTEMS[d])]
    mom = cell["fa"] == "m"
    variant = f"{d}{cell['sa']}"

    def fail(kind, msg, opname):
        ctx.fail(kind, f"[sympy {variant}; other {R.sysname(sb)}] {msg}", op=opname, variant=variant, backend="sympy")

    for opname in ("+=", "-=", "*=", "/="):
        V, syms_a = c08._sympy_vec(sa, "a", mom)
        W, syms_b = c08._sympy_vec(sb, "b", False)
        k = sympy.Symbol("k", positive=True)
        ident, cls = id(V), type(V)
        ctx.evaluation()
        try:
            if opname == "+=":
                V += W
            elif opname == "-=":
                V -= W
            elif opname == "*=":
                V *= k
            else:
                V /= k
        except Exception as e:  # noqa: BLE001
            fail("inplace_raises", f"v {opname} ... raised {type(e).__name__}: {e!s:.200}", opname)
            continue
        if id(V) != ident or type(V) is not cls:
            fail("identity", f"v {opname} ... rebound the name to a different object ({type(V).__name__})", opname)
            continue
        if obs.system_of(V) != sa:
            fail("coordinate_type", f"after v {opname} ... the vector is stored as {obs.system_of(V)}", opname)
            continue
        comps = list(obs.stored(V))
        allsyms = syms_a + syms_b + [k]
        try:
            funcs = [sympy.lambdify(allsyms, c, modules="mpmath") for c in comps]
        except Exception as e:  # noqa: BLE001
            fail("exception", f"lambdify raised {type(e).__name__}: {e!s:.200}", opname)
            continue
        for p in points:
            a = tuple(mpf(x) for x in p["a"]["c"][:d])
            b = tuple(mpf(x) for x in p["b"]["c"][:d])
            kv = mpf(p["k"])

            def regular(c):
                return R.rho2(c) > (mpf("1e-3") * R.scale_of(c)) ** 2 and (len(c) < 4 or (c[3] > 0 and R.tau2(c) > mpf("1e-3") * c[3] ** 2))

            ref = {"+=": R.add(a, b), "-=": R.subtract(a, b), "*=": R.scale(a, kv), "/=": R.scale(a, 1 / kv)}[opname]
            if not (regular(a) and regular(b) and regular(ref)):
                ctx.exclude("outside_sympy_domain")
                continue
            if not R.representable(sa, a) or not R.representable(sb, b) or not R.representable(sa, ref):
                ctx.exclude("operand_not_representable")
                continue
            vals = list(R.from_cartesian(sa, a)) + list(R.from_cartesian(sb, b)) + [kv]
            try:
                got = [f(*vals) for f in funcs]
                got = [mpf(g.real) if isinstance(g, mpmath.mpc) and abs(g.imag) < mpf("1e-45") else g for g in got]
            except ZeroDivisionError:
                ctx.exclude("mp_singular")
                continue
            if any(isinstance(g, mpmath.mpc) for g in got):
                fail("complex", f"after v {opname} ... a stored coordinate evaluates to a complex number at a={opcheck.fmt(a)} b={opcheck.fmt(b)}", opname)
                break
            ctx.evaluation()
            if not opcheck.vec_equiv(sa, tuple(mpf(g) for g in got), ref, opcheck.MP_TOL, R.scale_of(a, b, ref)):
                fail("inplace_value", f"after v {opname} {'w' if opname in ('+=', '-=') else 'k'} the stored coordinates evaluate to "
                     f"{R.sysname(sa)}{opcheck.fmt(got)} = {opcheck.fmt(R.to_cartesian(sa, tuple(mpf(g) for g in got)))} but the functional "
                     f"result is {opcheck.fmt(ref)}; a={opcheck.fmt(a)} b={opcheck.fmt(b)} k={opcheck.fmt(kv)}", opname)
                break
            ctx.nontrivial(key=[cell["id"], opname, p], sample={"op": opname, "a": p["a"]["c"][:d], "b": p["b"]["c"][:d], "stored": R.sysname(sa)})
    ctx.evaluations -= 1


def run_cell(cell, tier, ctx):
    import hypothesis
    from hypothesis import HealthCheck, settings

    if cell["machine"] == "sympy":
        import sys

        return runner.default_run_cell(sys.modules[__name__], cell, tier, ctx)

    n = (40 if cell["machine"] == "f64" else 25) if tier == "quick" else 600
    steps = 30 if tier == "quick" else 60
    holder = {}
    Machine = make_machine(cell, ctx, holder)
    from hypothesis import Phase

    # generate only: the failing history is minimised below by bounded step removal (Hypothesis' stateful shrinker can
    # take minutes per failure)
    sett = settings(max_examples=n, stateful_step_count=steps, database=None, deadline=None, derandomize=False,
                    report_multiple_bugs=False, suppress_health_check=list(HealthCheck), print_blob=False,
                    verbosity=hypothesis.Verbosity.quiet, phases=[Phase.generate])
    try:
        run_state_machine_as_test(hypothesis.seed(env.seed_for(PID, cell["id"]))(Machine), settings=sett)
    except Violation as v:
        v.case = {"history": list(holder["sim"].log)}
        v.cell = cell
        return [_minimise(cell, v, ctx)]
    except hypothesis.errors.Flaky as e:
        raise env.HarnessError(f"flaky state machine in {cell['id']}: {e!r}") from e
    return []


def _minimise(cell, v, ctx, budget=400):
    """greedy removal of steps (never the init step) while the same root-cause bucket still fails"""
    best = v
    hist = list(v.case["history"])
    spent = 0
    i = len(hist) - 2
    while i >= 1 and spent < budget:
        cand = hist[:i] + hist[i + 1:]
        spent += 1
        sub = runner.Ctx(PID, ctx.tier, cell)
        try:
            replay(cell, {"history": cand}, sub)
        except Violation as w:
            if w.bucket == best.bucket:
                w.case = {"history": cand}
                w.cell = cell
                best, hist = w, cand
        except Exception:  # noqa: BLE001
            pass
        i -= 1
    return best


def replay(cell, case, ctx):
    sim = Sim(cell, ctx)
    for step in case["history"]:
        if step[0] == "init":
            sim.init(opcheck.parse_system(step[1]), step[2])
        elif step[0] == "assign":
            sim.log.pop() if False else None
            sim.assign(step[1], step[2])
        else:
            sim.inplace(step[1], step[2])


def check_case(cell, case, ctx):
    if cell.get("machine") == "sympy":
        _sympy_inplace(cell, case, ctx)
        return
    replay(cell, case, ctx)


def describe(cell, case):
    return case
