"""C14 - momentum names are exact synonyms of the geometric names; flavor never changes a number."""

from __future__ import annotations

import zlib

import numpy
from hypothesis import strategies as st
from mpmath import mpf

from vcheck import build, catalog, gen, lattice, mpbackend, obs, opcheck, refmodel as R
from vcheck.catalog import OPS, SYNONYMS

import awkward as ak  # noqa: E402
import vector  # noqa: E402
from vector._methods import Momentum  # noqa: E402

PID = "C14"
SHRINK = False
EXHAUSTIVE = "synonym table (28 getters + Et/Mt families, 10 setters, 20 to_p* conversions, constructor/field spellings) x backend x coordinate system"
RULE = (
    "Cells = group {getters, setters, conversions, flavor-invariance per catalogued operation, construction, NumPy field access "
    "and item assignment, Awkward fields, SymPy} x dimension x stored system x backend. Values generated per cell (6 elements, "
    "all regular strata). Oracle: the synonym and the geometric name give bit-identical results (same code path), a setter "
    "through a synonym leaves the same state as the geometric setter, to_p* == geometric conversion, Et/et/transverse_energy "
    "etc. mutually identical, every accessor/method on a momentum vector == the generic vector holding the same stored "
    "coordinates (bit for bit, NaN == NaN), constructing/indexing/assigning through a synonym == through the geometric name. "
    "Every (synonym, backend, system) triple is visited; non-trivial = all of them (distinct by cell and input)."
)
ASSUMPTIONS = ["bit-for-bit equality (NaN positions equal) - both spellings must run the same computation on the same stored floats"]

SETTERS = [("px", "x", 2), ("py", "y", 2), ("pt", "rho", 2), ("pz", "z", 3), ("E", "t", 4), ("e", "t", 4), ("energy", "t", 4),
           ("M", "tau", 4), ("m", "tau", 4), ("mass", "tau", 4)]
MOM_NAME = {"x": "px", "y": "py", "rho": "pt", "phi": "phi", "z": "pz", "theta": "theta", "eta": "eta", "t": "energy", "tau": "mass"}
ALT = {"t": ("E", "e", "energy"), "tau": ("mass", "M", "m")}
BACKENDS = ("object", "numpy", "awkward")


def reduce_candidates(cell, case):
    return iter(())


def cells(tier):
    out = []
    for d in (2, 3, 4):
        for sa in R.SYSTEMS[d]:
            sn = R.sysname(sa)
            for be in BACKENDS:
                out.append({"id": f"getters|{d}{sn}|{be}", "group": "getters", "d": d, "sa": sn, "backend": be})
                out.append({"id": f"conversions|{d}{sn}|{be}", "group": "conversions", "d": d, "sa": sn, "backend": be})
                out.append({"id": f"construct|{d}{sn}|{be}", "group": "construct", "d": d, "sa": sn, "backend": be})
                out.append({"id": f"flavor_ops|{d}{sn}|{be}", "group": "flavor_ops", "d": d, "sa": sn, "backend": be})
            out.append({"id": f"setters|{d}{sn}", "group": "setters", "d": d, "sa": sn, "backend": "object"})
            out.append({"id": f"npassign|{d}{sn}", "group": "npassign", "d": d, "sa": sn, "backend": "numpy"})
            out.append({"id": f"sympy|{d}{sn}", "group": "sympy", "d": d, "sa": sn, "backend": "sympy"})
    for op in OPS.values():
        if "synonym" in op.tags or op.momentum:
            continue
        for da in op.self_dims:
            for db in op.other_dims(da):
                for be in BACKENDS:
                    SA = R.SYSTEMS[da]
                    reps = len(SA) if tier == "thorough" else 2
                    for k in range(reps):
                        h = zlib.crc32(f"{op.name}{da}{db}{be}{k}".encode())
                        sa = SA[k] if tier == "thorough" else SA[h % len(SA)]
                        sb = R.SYSTEMS[db][(h >> 5) % len(R.SYSTEMS[db])] if db else None
                        out.append({"id": f"flavor|{op.name}|{da}{R.sysname(sa)}|{db or ''}{R.sysname(sb) if sb else ''}|{be}|{k}",
                                    "group": "flavor", "op": op.name, "da": da, "db": db, "sa": R.sysname(sa),
                                    "sb": R.sysname(sb) if sb else None, "backend": be})
    return out


def examples(cell, tier):
    return 1 if tier == "quick" else 5


def strategy(cell, tier):
    if cell["group"] == "flavor":
        one = opcheck.case_strategy(OPS[cell["op"]], cell["db"], "mp", None)
    else:
        one = st.fixed_dictionaries({"a": gen.vec(gen.REGULAR), "val": gen.factor(), "val2": gen.positive_factor()})
    return st.tuples(*([one] * lattice.N)).map(list)


def _bits(x):
    """bit-exact key of a scalar/array/vector result"""
    kind = lattice.classify(x)
    if kind in ("object", "numpy", "awkward-array", "awkward-record"):
        system, rows = lattice.read_vector_rows(x)
        return ("vec", system, isinstance(x, Momentum) and False, tuple(tuple(_f(v) for v in r) for r in rows))
    vals = build.flat_values(x) if not isinstance(x, (tuple, list)) else list(x)
    return ("val", tuple(_f(v) for v in vals))


def _f(v):
    if v is None:
        return None
    if isinstance(v, (bool, numpy.bool_)):
        return bool(v)
    try:
        return float(v).hex()
    except Exception:  # noqa: BLE001
        return repr(v)


def _rows(cell, elems, key="sa", d=None, which="a"):
    d = d or cell["d"]
    sa = opcheck.parse_system(cell[key])
    return sa, lattice.rows_for(sa, [e[which]["c"] for e in elems], d)


def _mk(be, sa, rows, mom, spelling="generic", alt=0):
    if be == "object":
        return [mpbackend.make(sa, r, mom, False) for r in rows]
    if be == "numpy":
        return [build.np_array(sa, rows, mom, perm=alt)]
    return [ak.unflatten(build.ak_flat(sa, rows, mom, spelling, None, alt), [2, 0, 3, 1])]


def check_case(cell, elems, ctx):
    g = cell["group"]
    fn = {"getters": _getters, "setters": _setters, "conversions": _conversions, "flavor": _flavor, "construct": _construct,
          "npassign": _npassign, "sympy": _sympy, "flavor_ops": _flavor_ops}[g]
    fn(cell, elems, ctx)
    ctx.evaluations -= 1


def _fail(ctx, cell, op, kind, msg):
    ctx.fail(kind, f"[{cell['id']}] {msg}", op=op, variant=f"{cell.get('d', cell.get('da'))}{cell['sa']}", backend=cell["backend"])


def _call(f):
    try:
        return ("ok", f())
    except ZeroDivisionError:
        return ("zde", None)
    except Exception as e:  # noqa: BLE001
        return ("exc", e)


def _getters(cell, elems, ctx):
    d, be = cell["d"], cell["backend"]
    sa, rows = _rows(cell, elems)
    if rows is None:
        ctx.exclude("operand_not_representable")
        return
    G = _mk(be, sa, rows, False)
    for spelling in (("generic", "momentum") if be == "awkward" else ("generic",)):
        # alt: the spelling alternates of an Awkward record (E/e/energy...), the field order of a NumPy dtype
        for alt in ((0, 1, 2) if (spelling == "momentum" and d == 4) or be == "numpy" else (0,)):
            for v, g_ in zip(_mk(be, sa, rows, True, spelling, alt), G):
                for syn, geo, dims in SYNONYMS:
                    if d not in dims:
                        continue
                    ctx.evaluation()
                    a, b = _call(lambda: getattr(v, syn)), _call(lambda: getattr(v, geo))
                    c = _call(lambda: getattr(g_, geo))
                    if c[0] == "exc" and isinstance(c[1], AttributeError):
                        pass  # a momentum-only pair of names (Et / et, Mt / mt ...): the generic vector has neither
                    elif c[0] != a[0] or (a[0] == "ok" and _bits(a[1]) != _bits(c[1])):
                        _fail(ctx, cell, syn, "synonym", f".{syn} of the momentum vector -> {a[0]} {build.flat_values(a[1])[:3] if a[0] == 'ok' else a[1]!r} "
                              f"but .{geo} of the generic vector with the same stored coordinates -> {c[0]} "
                              f"{build.flat_values(c[1])[:3] if c[0] == 'ok' else c[1]!r} ({spelling} spelling, field order {alt}) for stored {rows[0]}")
                        return
                    if a[0] != b[0]:
                        _fail(ctx, cell, syn, "synonym", f".{syn} -> {a[0]} {a[1]!r} but .{geo} -> {b[0]} {b[1]!r}")
                        return
                    if a[0] == "ok" and _bits(a[1]) != _bits(b[1]):
                        _fail(ctx, cell, syn, "synonym", f".{syn} = {build.flat_values(a[1])[:3]} differs from .{geo} = "
                              f"{build.flat_values(b[1])[:3]} ({spelling} spelling) for stored {rows[0]}")
                        return
                    ctx.nontrivial(key=[cell["id"], syn, spelling, alt, rows[0]], sample={"synonym": syn, "geometric": geo, "stored": rows[0]})


def _setters(cell, elems, ctx):
    d = cell["d"]
    sa, rows = _rows(cell, elems)
    if rows is None:
        ctx.exclude("operand_not_representable")
        return
    for i, row in enumerate(rows):
        val = elems[i]["val2"]
        for syn, geo, mind in SETTERS:
            if d < mind:
                continue
            ctx.evaluation()
            m1 = mpbackend.make(sa, row, True, False)
            m2 = mpbackend.make(sa, row, True, False)
            r1 = _call(lambda: setattr(m1, syn, val))
            r2 = _call(lambda: setattr(m2, geo, val))
            if r1[0] != r2[0]:
                _fail(ctx, cell, syn, "setter", f"v.{syn} = {val} -> {r1}, v.{geo} = {val} -> {r2}")
                return
            s1 = (obs.system_of(m1), tuple(_f(x) for x in obs.stored(m1)))
            s2 = (obs.system_of(m2), tuple(_f(x) for x in obs.stored(m2)))
            if s1 != s2:
                _fail(ctx, cell, syn, "setter", f"after v.{syn} = {val}: {obs.system_of(m1)}{obs.stored(m1)}; after v.{geo} = {val}: "
                      f"{obs.system_of(m2)}{obs.stored(m2)} (started from {row})")
                return
            got = getattr(m1, syn)
            if _f(got) != _f(val):
                _fail(ctx, cell, syn, "setter", f"v.{syn} = {val!r} reads back {got!r}")
                return
            ctx.nontrivial(key=[cell["id"], syn, row, val], sample={"setter": syn, "value": val, "stored": row})


def _conversions(cell, elems, ctx):
    d, be = cell["d"], cell["backend"]
    sa, rows = _rows(cell, elems)
    if rows is None:
        ctx.exclude("operand_not_representable")
        return
    for mom in (True, False):
        for v in _mk(be, sa, rows, mom):
            for td in (2, 3, 4):
                for target in R.SYSTEMS[td]:
                    names = R.coord_names(target)
                    gname = "to_" + "".join(names)
                    pname = "to_" + "".join(MOM_NAME[n] for n in names)
                    # keyword spellings for coordinates a lower-dimensional vector has to impute
                    kwp, kwg = {}, {}
                    h = zlib.crc32(f"{cell['id']}{pname}".encode())
                    if h % 3:
                        if td >= 3 and d < 3:
                            kwp[MOM_NAME[names[2]]] = kwg[names[2]] = 0.375 + (h % 7) / 8
                        if td == 4 and d < 4:
                            kwp[MOM_NAME[names[3]]] = kwg[names[3]] = 1.625 + (h % 5) / 4
                    ctx.evaluation()
                    a, b = _call(lambda: getattr(v, pname)(**kwp)), _call(lambda: getattr(v, gname)(**kwg))
                    if a[0] != b[0]:
                        _fail(ctx, cell, pname, "conversion", f"{pname}() -> {a[0]} {a[1]!r}; {gname}() -> {b[0]} {b[1]!r}")
                        return
                    if a[0] != "ok":
                        continue
                    if type(a[1]) is not type(b[1]) or _bits(a[1]) != _bits(b[1]):
                        _fail(ctx, cell, pname, "conversion", f"{pname}({kwp}) = {type(a[1]).__name__} differs from {gname}({kwg}) = "
                              f"{type(b[1]).__name__} for stored {rows[0]}")
                        return
                    ctx.nontrivial(key=[cell["id"], pname, mom, rows[0]], sample={"conversion": pname, "stored": rows[0]})
            # the keyword synonyms of the embeddings: every spelling of one coordinate gives the same vector, for ordinary
            # values and for exactly zero (a given zero is a value, not an absent keyword)
            if d < 4:
                fams = [("t", "E", "e", "energy"), ("tau", "M", "m", "mass")] + ([("z", "pz")] if d < 3 else [])
                for fam in fams:
                    for val in (0, 0.0, 1.75, -2.5):
                        outs = []
                        for sp in fam:
                            ctx.evaluation()
                            meth = "to_Vector4D" if fam[0] in ("t", "tau") else "to_Vector3D"
                            r = _call(lambda: getattr(v, meth)(**{sp: val}))
                            outs.append((sp, r))
                        base = outs[0][1]
                        for sp, r in outs[1:]:
                            if r[0] != base[0] or (r[0] == "ok" and _bits(r[1]) != _bits(base[1])):
                                _fail(ctx, cell, "to_Vector4D" if fam[0] in ("t", "tau") else "to_Vector3D", "keyword_synonym",
                                      f"{meth}({sp}={val!r}) gives {str(r[1])[:120]} but {meth}({fam[0]}={val!r}) gives {str(base[1])[:120]}")
                                return


def _flavor(cell, elems, ctx):
    op = OPS[cell["op"]]
    if "order" in op.scalars:
        for e in elems:
            e["s"]["order"] = elems[0]["s"]["order"]
    be = cell["backend"]
    ka = {"object": "object", "numpy": "np1", "awkward": "jagged"}[be]
    res = {}
    variants = [("g", "g", None), ("m", "g", None), ("m", "m", None), ("g", "m", None)]
    redundant = False
    if be == "awkward":
        # Awkward records whose fields literally carry the momentum names (px py pt pz, and each of E/e/energy, mass/M/m)
        variants += [("m", "m", 0), ("m", "g", 1), ("m", "m", 2)]
        redundant = (zlib.crc32(cell["id"].encode()) >> 3) % 2 == 0
    for fa, fb, alt in variants:
        if not cell["db"] and fb == "m" and alt is None:
            continue
        cfg = dict(cell, ka=ka, kb=(ka if cell["db"] else None), fa=fa, fb=fb if cell["db"] else None, scal="py")
        if alt is not None:
            cfg.update(spa="momentum", spb="momentum" if fb == "m" else "generic", alt=alt)
        if be == "awkward" and redundant:
            cfg["extra"] = "redundant"  # every variant, so that generic and momentum spellings face the same redundant columns
        fb = (fb, alt)
        o = lattice.evaluate(cfg, elems, want_ref=False)
        ctx.evaluation()
        if o.skipped:
            ctx.exclude(o.skipped)
            return
        if o.exc is not None:
            res[(fa, fb)] = ("exc", type(o.exc).__name__)
        else:
            try:
                res[(fa, fb)] = ("ok", _bits(o.result)[:2] + _bits(o.result)[3:] if _bits(o.result)[0] == "vec" else _bits(o.result))
            except Exception as e:  # noqa: BLE001
                res[(fa, fb)] = ("unreadable", type(e).__name__)
    base = res[("g", ("g", None))]
    for k, v in res.items():
        if v != base:
            _fail(ctx, cell, op.name, "flavor_changes_value", f"{op.name} on flavors {k} gives {str(v)[:300]} but on generic operands "
                  f"{str(base)[:300]}")
            return
    ctx.nontrivial(sample={"op": op.name, "first": elems[0]})


def _flavor_ops(cell, elems, ctx):
    """operators, ufuncs and reductions (each backend registers them per flavor): a momentum vector gives bit for bit what
    the generic vector with the same stored coordinates gives"""
    d, be = cell["d"], cell["backend"]
    sa, rows = _rows(cell, elems)
    if rows is None:
        ctx.exclude("operand_not_representable")
        return
    f = elems[0]["val"]
    exprs = [("abs(v)", lambda v, w: abs(v)), ("v**2", lambda v, w: v**2), ("v**3", lambda v, w: v**3), ("v**-1", lambda v, w: v**-1),
             ("v**0.5", lambda v, w: v**0.5), ("numpy.sqrt(v)", lambda v, w: numpy.sqrt(v)), ("numpy.cbrt(v)", lambda v, w: numpy.cbrt(v)),
             ("numpy.square(v)", lambda v, w: numpy.square(v)), ("numpy.absolute(v)", lambda v, w: numpy.absolute(v)),
             ("numpy.power(v, 3)", lambda v, w: numpy.power(v, 3)), ("-v", lambda v, w: -v), ("+v", lambda v, w: +v),
             ("v*s", lambda v, w: v * f), ("s*v", lambda v, w: f * v), ("v/s", lambda v, w: v / f), ("v+w", lambda v, w: v + w),
             ("v-w", lambda v, w: v - w), ("v==w", lambda v, w: v == w), ("v!=w", lambda v, w: v != w),
             ("numpy.isclose(v, w)" if be != "awkward" else "v.isclose(w)", (lambda v, w: numpy.isclose(v, w)) if be != "awkward" else (lambda v, w: v.isclose(w)))]
    if be == "numpy":
        exprs += [("numpy.sum(v)", lambda v, w: numpy.sum(v)), ("v.sum(axis=0)", lambda v, w: v.sum(axis=0)),
                  ("numpy.count_nonzero(v)", lambda v, w: numpy.count_nonzero(v))]
    if be == "awkward":
        exprs += [("ak.sum(v, axis=-1)", lambda v, w: ak.sum(v, axis=-1)), ("ak.count_nonzero(v, axis=-1)", lambda v, w: ak.count_nonzero(v, axis=-1)),
                  ("ak.count(v, axis=-1)", lambda v, w: ak.count(v, axis=-1))]
    spellings = [("generic", 0)] + ([("momentum", a) for a in range(3)] if be == "awkward" else []) + ([("generic", 1), ("generic", 2)] if be == "numpy" else [])
    G = _mk(be, sa, rows, False)
    W = _mk(be, sa, rows[::-1], False)
    for sp, alt in spellings:
        M = _mk(be, sa, rows, True, sp, alt)
        for what, fn in exprs:
            for g_, m_, w_ in zip(G, M, W):
                ctx.evaluation()
                with numpy.errstate(all="ignore"):
                    a, b = _call(lambda: fn(g_, w_)), _call(lambda: fn(m_, w_))
                if a[0] != b[0]:
                    _fail(ctx, cell, what, "flavor_changes_value", f"{what}: generic operand gives {a[0]} {str(a[1])[:100]}, momentum operand "
                          f"({sp} spelling {alt}) gives {b[0]} {str(b[1])[:100]}")
                    return
                if a[0] != "ok":
                    continue
                try:
                    ka, kb = _bits(a[1]), _bits(b[1])
                except Exception as e:  # noqa: BLE001
                    _fail(ctx, cell, what, "unreadable", f"{what}: result not readable: {e!r}")
                    return
                if ka[:2] + ka[3:] != kb[:2] + kb[3:] if ka[0] == "vec" else ka != kb:
                    _fail(ctx, cell, what, "flavor_changes_value", f"{what}: momentum operand ({sp} spelling {alt}) gives {str(kb)[:200]} but the "
                          f"generic operand with the same stored coordinates gives {str(ka)[:200]}")
                    return
    ctx.nontrivial(sample={"operators_on": f"{d}{cell['sa']} {be}", "first": elems[0]["a"]["c"][:d]})


def _construct(cell, elems, ctx):
    d, be = cell["d"], cell["backend"]
    sa, rows = _rows(cell, elems)
    if rows is None:
        ctx.exclude("operand_not_representable")
        return
    names = R.coord_names(sa)
    spellings = [[MOM_NAME[n] if n not in ALT else a for n in names] for a in ("E", "e", "energy", "mass", "M", "m")]
    spellings = [[(s if (n not in ALT or s in ALT[n]) else ALT[n][0]) for n, s in zip(names, sp)] for sp in spellings]
    # mixed spellings: any subset of the coordinates under its momentum name, the others under the geometric one
    full = spellings[zlib.crc32(cell["id"].encode()) % len(spellings)]
    for mask in range(1, 2 ** len(names) - 1):
        spellings.append([full[j] if (mask >> j) & 1 else names[j] for j in range(len(names))])
    seen = set()
    for sp in spellings:
        if tuple(sp) in seen or sp == list(names):
            continue
        seen.add(tuple(sp))
        ctx.evaluation()
        if be == "object":
            for row in rows[:3]:
                a = _call(lambda: vector.obj(**dict(zip(sp, row))))
                b = _call(lambda: vector.obj(**dict(zip(names, row))))
                if a[0] != "ok" or b[0] != "ok":
                    _fail(ctx, cell, "obj", "construct", f"vector.obj({sp}) -> {a}; vector.obj({list(names)}) -> {b}")
                    return
                if not isinstance(a[1], Momentum) or isinstance(b[1], Momentum):
                    _fail(ctx, cell, "obj", "construct", f"flavor: obj({sp}) is {type(a[1]).__name__}, obj({list(names)}) is {type(b[1]).__name__}")
                    return
                if obs.system_of(a[1]) != obs.system_of(b[1]) or tuple(_f(x) for x in obs.stored(a[1])) != tuple(_f(x) for x in obs.stored(b[1])):
                    _fail(ctx, cell, "obj", "construct", f"obj({sp}) stores {obs.stored(a[1])}, obj({list(names)}) stores {obs.stored(b[1])}")
                    return
        elif be == "numpy":
            cols_p = {s: numpy.array([r[j] for r in rows]) for j, s in enumerate(sp)}
            cols_g = {n: numpy.array([r[j] for r in rows]) for j, n in enumerate(names)}
            a, b = _call(lambda: vector.array(cols_p)), _call(lambda: vector.array(cols_g))
            if a[0] != "ok" or b[0] != "ok":
                _fail(ctx, cell, "array", "construct", f"vector.array({sp}) -> {a}; generic -> {b}")
                return
            if not isinstance(a[1], Momentum) or _bits(a[1]) != _bits(b[1]):
                _fail(ctx, cell, "array", "construct", f"vector.array with fields {sp} differs from fields {list(names)}")
                return
            for j, s in enumerate(sp):
                if a[1][s].tobytes() != b[1][names[j]].tobytes():
                    _fail(ctx, cell, "array", "construct", f"arr[{s!r}] != generic arr[{names[j]!r}]")
                    return
        else:
            cols_p = {s: numpy.array([r[j] for r in rows]) for j, s in enumerate(sp)}
            cols_g = {n: numpy.array([r[j] for r in rows]) for j, n in enumerate(names)}
            for ctor in ("zip", "Array", "ak.zip"):
                if ctor == "zip":
                    a, b = _call(lambda: vector.zip(cols_p)), _call(lambda: vector.zip(cols_g))
                elif ctor == "Array":
                    a = _call(lambda: vector.Array([dict(zip(sp, r)) for r in rows]))
                    b = _call(lambda: vector.Array([dict(zip(names, r)) for r in rows]))
                else:
                    a = _call(lambda: ak.zip(cols_p, with_name=f"Momentum{d}D", behavior=vector.backends.awkward.behavior))
                    b = _call(lambda: ak.zip(cols_g, with_name=f"Vector{d}D", behavior=vector.backends.awkward.behavior))
                if a[0] != "ok" or b[0] != "ok":
                    _fail(ctx, cell, ctor, "construct", f"{ctor} with fields {sp} -> {a[0]} {a[1]!r}; generic -> {b[0]} {b[1]!r}")
                    return
                if not isinstance(a[1], Momentum) or isinstance(b[1], Momentum):
                    _fail(ctx, cell, ctor, "construct", f"{ctor}: flavors {type(a[1]).__name__} / {type(b[1]).__name__}")
                    return
                if _bits(a[1]) != _bits(b[1]):
                    _fail(ctx, cell, ctor, "construct", f"{ctor} with fields {sp} holds different coordinates than with {list(names)}")
                    return
        ctx.nontrivial(key=[cell["id"], sp, rows[0]], sample={"spelling": sp, "stored": rows[0]})


def _npassign(cell, elems, ctx):
    d = cell["d"]
    sa, rows = _rows(cell, elems)
    if rows is None:
        ctx.exclude("operand_not_representable")
        return
    names = R.coord_names(sa)
    vals = [e["val"] for e in elems]
    for alt in range(3):
        sp = [(ALT[n][alt] if n in ALT else MOM_NAME[n]) for n in names]
        # field assignment
        for j, n in enumerate(names):
            ctx.evaluation()
            m = build.np_array(sa, rows, True)
            g = build.np_array(sa, rows, False)
            a = _call(lambda: m.__setitem__(sp[j], numpy.array(vals)))
            b = _call(lambda: g.__setitem__(n, numpy.array(vals)))
            if a[0] != b[0] or m.view(numpy.ndarray).tobytes() != g.view(numpy.ndarray).tobytes():
                _fail(ctx, cell, "setitem_field", "assign", f"marr[{sp[j]!r}] = v -> {a[0]} {a[1]!r}; garr[{n!r}] = v -> {b[0]} {b[1]!r}; "
                      f"arrays equal: {m.view(numpy.ndarray).tobytes() == g.view(numpy.ndarray).tobytes()}")
                return
        # structured assignment through a slice / mask / fancy index
        for where_name, where in (("slice", slice(1, 4)), ("mask", numpy.array([True, False, True, False, False, True])),
                                  ("fancy", numpy.array([4, 0])), ("all", slice(None))):
            ctx.evaluation()
            m = build.np_array(sa, rows, True)
            g = build.np_array(sa, rows, False)
            k = len(numpy.arange(6)[where])
            srcm = numpy.zeros(k, dtype=[(s, float) for s in sp])
            srcg = numpy.zeros(k, dtype=[(n, float) for n in names])
            for j, n in enumerate(names):
                srcm[sp[j]] = [v + j for v in vals[:k]]
                srcg[n] = [v + j for v in vals[:k]]
            a = _call(lambda: m.__setitem__(where, srcm))
            b = _call(lambda: g.__setitem__(where, srcg))
            same = m.view(numpy.ndarray).tobytes() == g.view(numpy.ndarray).tobytes()
            if a[0] != b[0] or not same:
                _fail(ctx, cell, "setitem_struct", "assign", f"marr[{where_name}] = records({sp}) -> {a[0]} {a[1]!r}; garr[{where_name}] = "
                      f"records({list(names)}) -> {b[0]} {b[1]!r}; arrays equal afterwards: {same}")
                return
            ctx.nontrivial(key=[cell["id"], alt, where_name, rows[0]], sample={"assign": where_name, "fields": sp})


def _sympy(cell, elems, ctx):
    import sympy

    d = cell["d"]
    sa = opcheck.parse_system(cell["sa"])
    from vector.backends import sympy as vs

    names = R.coord_names(sa)
    syms = sympy.symbols(" ".join(names), real=True)
    if not isinstance(syms, (tuple, list)):
        syms = (syms,)
    AZ = {"xy": vs.AzimuthalSympyXY, "rhophi": vs.AzimuthalSympyRhoPhi}
    LO = {"z": vs.LongitudinalSympyZ, "theta": vs.LongitudinalSympyTheta, "eta": vs.LongitudinalSympyEta}
    TE = {"t": vs.TemporalSympyT, "tau": vs.TemporalSympyTau}
    cls = {2: vs.MomentumSympy2D, 3: vs.MomentumSympy3D, 4: vs.MomentumSympy4D}[d]
    kw = {"azimuthal": AZ[sa[0]](syms[0], syms[1])}
    if d >= 3:
        kw["longitudinal"] = LO[sa[1]](syms[2])
    if d == 4:
        kw["temporal"] = TE[sa[2]](syms[3])
    v = cls(**kw)
    for syn, geo, dims in SYNONYMS:
        if d not in dims:
            continue
        ctx.evaluation()
        a, b = _call(lambda: getattr(v, syn)), _call(lambda: getattr(v, geo))
        if a[0] != b[0] or (a[0] == "ok" and sympy.simplify(a[1] - b[1]) != 0 and a[1] != b[1]):
            _fail(ctx, cell, syn, "synonym", f"sympy .{syn} = {a[1]} differs from .{geo} = {b[1]}")
            return
        ctx.nontrivial(key=[cell["id"], syn], sample={"synonym": syn, "expr": str(a[1])[:80]})


def describe(cell, case):
    return case[:1]
