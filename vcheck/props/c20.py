"""C20 - operations leave no trace in global state and are thread-deterministic."""

from __future__ import annotations

import json
import os
import subprocess
import sys
import threading
import warnings
import zlib

import numpy
from hypothesis import strategies as st

from mpmath import mpf

from vcheck import build, env, gen, lattice, mpbackend, opcheck, refmodel as R
from vcheck.catalog import OPS
from vcheck.props import c03, c14

import awkward as ak  # noqa: E402
import vector  # noqa: E402

PID = "C20"
SHRINK = False
ISOLATE = True
RULE = (
    "Cells 'history' = shard x {behaviors per array, register_awkward() (own processes)}: a case is a generated prior "
    "configuration (numpy.seterr per category in {ignore, warn, raise, call, log}, an error callback, warnings filter in "
    "{default, error, ignore, always}, print options) and a history of 12-40 calls drawn from the whole catalogue on all "
    "backends and layouts, including calls that raise (dimension mismatch, bad constructor arguments, wrong-dimension boosters) "
    "and calls on singular inputs (zero vector, on-axis, light-like, beta = 1, division by zero). Invariant after every call, "
    "returned or raised: numpy.geterr(), numpy.geterrcall(), warnings.filters, numpy.get_printoptions(), awkward.behavior "
    "(keys and value identities), vector.backends.awkward.behavior, vector._awkward_registered are exactly as before the call. "
    "Every call of a history is evaluated again afterwards in reverse order and (a sample / all in thorough) in a fresh "
    "interpreter: outcomes must be identical (no result cache, no state carried between calls). Cells 'sweep': every catalogued "
    "operation in every coordinate-system signature once, state compared around each call. Cells 'hooks': every operator / ufunc / "
    "reduction entry point of every backend from 16 threads, process-wide state compared around the threaded phase. "
    "Cells 'register' (own processes): register_awkward()/register_numba() twice - the second call changes nothing. Cells "
    "'threads': a generated list of calls evaluated sequentially, then partitioned over 16 threads released by a barrier with "
    "sys.setswitchinterval(1e-6), several partitions; results must be bit-identical to the sequential ones and each thread's "
    "numpy.geterr() must be what that thread set; one scenario starts the threads in a cold subprocess so that the lazy imports "
    "inside methods race. Non-trivial = a call that raises or hits a singular input under a non-default configuration / a batch "
    "with >= 2 threads running the same operation; distinct by (cell, input)."
)
ASSUMPTIONS = [
    "the harness does not own the interpreter's scheduler: 'for all interleavings' is explored (many partitions, 1e-6 s switch interval, cold start), not decided",
    "importing a compute module (sys.modules growth) is not counted as observable global state",
]

ERR_MODES = ("ignore", "warn", "raise", "call", "log")
WARN_ACTIONS = ("default", "error", "ignore", "always")


def reduce_candidates(cell, case):
    if cell["group"] == "history" and len(case["steps"]) > 1:
        for i in range(len(case["steps"])):
            yield {**case, "steps": case["steps"][:i] + case["steps"][i + 1:]}


def cell_group(cell):
    return cell.get("proc", "plain")


def cells(tier):
    out = []
    shards = 12 if tier == "quick" else 48
    for reg in (False, True):
        for sh in range(shards if not reg else shards // 3):
            out.append({"id": f"history|{'reg' if reg else 'unreg'}|{sh}", "group": "history", "registered": reg,
                        "proc": "registered" if reg else "plain", "shard": sh})
    out.append({"id": "register|awkward", "group": "register", "what": "awkward", "proc": "reg-awkward"})
    out.append({"id": "register|numba", "group": "register", "what": "numba", "proc": "reg-numba"})
    for k in range(6 if tier == "quick" else 24):
        out.append({"id": f"threads|{k}", "group": "threads", "proc": "plain", "shard": k})
    for k in range(2 if tier == "quick" else 8):
        out.append({"id": f"threads|hooks|{k}", "group": "hooks", "proc": "plain", "shard": k})
    # every catalogued operation in every coordinate-system signature once (the error-state / warnings handling lives in each
    # compute module's own dispatch and kernels, so coverage has to be per signature, not per operation)
    for k in range(16):
        out.append({"id": f"sweep|{k}", "group": "sweep", "proc": "plain", "shard": k})
    out.append({"id": "threads|cold", "group": "cold", "proc": "plain"})
    return out


def examples(cell, tier):
    if cell["group"] == "history":
        return 6 if tier == "quick" else 30
    if cell["group"] == "threads":
        return 1 if tier == "quick" else 3
    return 1


from vcheck import catalog  # noqa: E402

# catalogued operations plus the conversions / projections / embeddings (each backend wraps those through its own branch)
_OPNAMES = [n for n, o in OPS.items() if "synonym" not in o.tags] + sorted(catalog.EXTRA_OPS) * 2
KINDS = ("object", "np1", "np2", "flat", "jagged", "optrec", "record")


@st.composite
def _step(draw):
    kind = draw(st.sampled_from(("op", "op", "op", "singular", "raise", "construct", "kernel_raise", "kernel_raise", "operator", "operator")))
    if kind == "operator":
        # the operator spellings run through each backend's ufunc hook (__array_ufunc__ / Awkward behaviors), not through dispatch()
        opcall = draw(st.sampled_from(sorted(c03.OPCALLS)))
        name = c03.OPCALLS[opcall][0]
        op = catalog.get(name)
        da = draw(st.sampled_from(op.self_dims))
        db = draw(st.sampled_from(op.other_dims(da)))
        return {"kind": "operator", "op": name, "opcall": opcall, "da": da, "db": db, "elem": draw(opcheck.case_strategy(op, db, "f64", None)),
                "h": draw(st.integers(0, 2**30)), "zero": draw(st.sampled_from((False, False, False, True)))}
    if kind == "kernel_raise":
        # the exception is raised INSIDE the dispatched computation (unbroadcastable shapes, mismatching list lengths,
        # overflowing Python floats, a non-numeric scalar argument), not by the argument checks before it
        name = draw(st.sampled_from(_OPNAMES))
        op = catalog.get(name)
        da = draw(st.sampled_from(op.self_dims))
        db = draw(st.sampled_from(op.other_dims(da)))
        return {"kind": "kernel_raise", "op": name, "da": da, "db": db, "elem": draw(opcheck.case_strategy(op, db, "f64", None)),
                "h": draw(st.integers(0, 2**30)), "how": draw(st.sampled_from(("shape", "lists", "overflow", "badscalar")))}
    if kind in ("op", "singular"):
        name = draw(st.sampled_from(_OPNAMES))
        op = catalog.get(name)
        da = draw(st.sampled_from(op.self_dims))
        db = draw(st.sampled_from(op.other_dims(da)))
        one = opcheck.case_strategy(op, db, "f64", None)
        e = draw(one)
        return {"kind": kind, "op": name, "da": da, "db": db, "elem": e, "h": draw(st.integers(0, 2**30)),
                "sing": draw(st.sampled_from(("zero", "onaxis", "lightlike", "beta1", "negt")))}
    if kind == "raise":
        return {"kind": "raise", "which": draw(st.sampled_from(("dims_add", "dims_dot", "cross4", "boost2d", "bad_obj", "bad_names", "bad_array",
                                                                 "two_kw", "bad_order", "div0", "eq_dims", "like_bad", "sum_bad_axis", "sum_bad_axis",
                                                                 "aksum_bad_axis", "sum_where", "getitem_bad", "count_bad_axis"))), "h": draw(st.integers(0, 2**30))}
    return {"kind": "construct", "which": draw(st.sampled_from(("obj", "array", "zip", "Array", "zip_mom", "Array_behavior", "zip_behavior", "np_getitem", "np_setitem"))), "h": draw(st.integers(0, 2**30)),
            "v": draw(gen.vec(("moderate",)))}


def strategy(cell, tier):
    if cell["group"] == "history":
        cfg = st.fixed_dictionaries({
            "err": st.fixed_dictionaries({k: st.sampled_from(ERR_MODES) for k in ("divide", "over", "under", "invalid")}),
            "warn": st.sampled_from(WARN_ACTIONS), "precision": st.integers(3, 12),
        })
        return st.fixed_dictionaries({"config": cfg, "steps": st.lists(_step(), min_size=12, max_size=40 if tier == "thorough" else 24)})
    if cell["group"] == "threads":
        # a pool of distinct generated calls, repeated to a few hundred (Hypothesis' entropy budget bounds the pool size)
        return st.fixed_dictionaries({"pool": st.lists(_step(), min_size=24, max_size=40),
                                      "repeat": st.integers(8, 12 if tier == "quick" else 40), "perm": st.integers(0, 2**30)})
    if cell["group"] == "sweep":
        return st.fixed_dictionaries({"a": gen.vec(("moderate",)), "b": gen.vec(("moderate",)), "beta3": gen.beta3(moderate=True),
                                      "s": st.fixed_dictionaries({"angle": st.floats(-3.0, 3.0), "factor": gen.factor(), "beta": gen.moderate_beta(),
                                                                  "gamma": gen.moderate_gamma(), "tolerance": st.sampled_from((0.0, 1e-5, 0.1)),
                                                                  "phi": st.floats(-3.0, 3.0), "theta": st.floats(-3.0, 3.0), "psi": st.floats(-3.0, 3.0),
                                                                  "rtol": st.just(1e-5), "atol": st.just(1e-8), "quat": gen.quaternion(),
                                                                  "m2": gen.matrix(2), "m3": gen.matrix(3), "m4": gen.matrix(4),
                                                                  "order": st.sampled_from(gen.EULER_ORDERS), "yaw": st.floats(-3.0, 3.0),
                                                                  "pitch": st.floats(-1.5, 1.5), "roll": st.floats(-3.0, 3.0)})})
    if cell["group"] == "hooks":
        return st.fixed_dictionaries({"v": gen.vec(("moderate",)), "w": gen.vec(("moderate",)), "s": gen.factor(),
                                      "repeat": st.integers(4, 8), "perm": st.integers(0, 2**30)})
    return st.integers(0, 10**6).map(lambda i: {"nonce": i})


# ----------------------------------------------------------------------------------- state
def gsnap():
    return {
        "numpy.geterr": dict(numpy.geterr()),
        "numpy.geterrcall": id(numpy.geterrcall()),
        "warnings.filters": [tuple(str(x) if i in (1, 3) and x is not None else x for i, x in enumerate(f)) for f in warnings.filters],
        "numpy.printoptions": {k: repr(v) for k, v in numpy.get_printoptions().items()},
        "awkward.behavior": tuple(sorted((repr(k), id(v)) for k, v in ak.behavior.items())),
        "vector.behavior": (id(vector.backends.awkward.behavior), len(vector.backends.awkward.behavior),
                            zlib.crc32(repr(sorted(repr(k) for k in vector.backends.awkward.behavior)).encode())),
        "vector._awkward_registered": getattr(vector, "_awkward_registered", None),
        "vector.module_tables": _module_tables(),
        "switchinterval": sys.getswitchinterval(),
        "warnings.showwarning": id(warnings.showwarning),
    }


def _module_tables():
    """every module-level dict / list / set of the library (alias tables, coordinate orders, priorities, registries): size and,
    for the small ones, content"""
    import vector._methods
    import vector.backends.awkward_constructors

    out = []
    for mod in (vector, vector._methods, vector.backends.object, vector.backends.numpy, vector.backends.awkward,
                vector.backends.awkward_constructors):
        for name, val in sorted(vars(mod).items()):
            if name.startswith("__") or not isinstance(val, (dict, list, set, tuple)):
                continue
            if isinstance(val, tuple) and len(val) > 64:
                continue
            try:
                content = zlib.crc32(repr(sorted(map(repr, val))).encode()) if len(val) <= 200 else None
            except Exception:  # noqa: BLE001
                content = None
            out.append((mod.__name__, name, len(val), content))
    return tuple(out)


def gdiff(a, b):
    for k in a:
        if a[k] != b[k]:
            return f"{k}: {str(a[k])[:200]} -> {str(b[k])[:200]}"
    return None


class _Log:
    def write(self, msg):
        pass


def _errcall(kind, flag):
    pass


def _singular_elem(e, which, da, db):
    e = json.loads(json.dumps(e))
    a = e["a"]["c"]
    if which == "zero":
        e["a"]["c"] = [0.0, 0.0, 0.0, 0.0]
    elif which == "onaxis":
        e["a"]["c"] = [0.0, 0.0, a[2], a[3]]
    elif which == "lightlike":
        e["a"]["c"] = [3.0, 4.0, 0.0, 5.0]
    elif which == "negt":
        e["a"]["c"] = [a[0], a[1], a[2], -abs(a[3])]
    elif which == "beta1":
        if "beta" in e["s"]:
            e["s"]["beta"] = 1.0
        if "gamma" in e["s"]:
            e["s"]["gamma"] = 0.5
        if e.get("b") is not None:
            e["b"]["c"] = [1.0, 0.0, 0.0, 1.0]
    return e


def _kernel_raise(step):
    op = catalog.get(step["op"])
    da, db, h, how = step["da"], step["db"], step["h"], step["how"]
    e = step["elem"]
    SA = R.SYSTEMS[da]
    sa = SA[(h >> 4) % len(SA)]
    sb = R.SYSTEMS[db][(h >> 10) % len(R.SYSTEMS[db])] if db else None
    mom = op.momentum
    s = dict(e["s"])

    def rows(system, c, d, n):
        r = lattice.rows_for(system, [c] * n, d)
        return r

    try:
        if how == "overflow":
            big = [v * 1e200 for v in e["a"]["c"]]
            ra = lattice.rows_for(sa, [big], da)
            if ra is None or any(abs(x) == float("inf") for x in ra[0]):
                return ("skip", "overflow_not_representable")
            A = lattice.make_operand("object", sa, ra, mom)
            B = lattice.make_operand("object", sb, lattice.rows_for(sb, [[v * 1e200 for v in e["b"]["c"]]], db) or [tuple([1.0] * db)], False) if db else None
        else:
            ra = rows(sa, e["a"]["c"], da, 3)
            rb = rows(sb, e["b"]["c"], db, 2) if db else None
            if ra is None or (db and rb is None):
                return ("skip", "operand_not_representable")
            if how == "lists":
                A = ak.unflatten(build.ak_flat(sa, ra, mom), [2, 1])
                B = ak.unflatten(build.ak_flat(sb, rb + rb[:1], False), [1, 2]) if db else None
            else:
                A = build.np_array(sa, ra, mom)
                B = build.np_array(sb, rb, False) if db else None
            if how == "badscalar" or not db:
                for name in op.scalars:
                    k = __import__("vcheck.catalog", fromlist=["SCALAR_KIND"]).SCALAR_KIND[name]
                    if k.startswith("matrix"):
                        s[name] = {"xx": 1.0}
                    elif k == "quat":
                        s[name] = [1.0, "j", 0.0, 0.0]
                    elif k != "order":
                        s[name] = "not-a-number" if how == "badscalar" else numpy.arange(5.0)
        r = op.call(A, B, s)
        try:
            return ("ok", c14._bits(r))
        except Exception:  # noqa: BLE001
            return ("ok", repr(type(r)))
    except Exception as ex:  # noqa: BLE001
        return ("exc", type(ex).__name__)


def run_step(step, registered=False):
    """execute one step; returns ("ok"|"exc"|"skip", bits or exception name)"""
    kind = step["kind"]
    h = step["h"]
    if kind == "kernel_raise":
        return _kernel_raise(step)
    if kind in ("op", "singular", "operator"):
        op = catalog.get(step["op"])
        da, db = step["da"], step["db"]
        e = step["elem"]
        if kind == "singular":
            e = _singular_elem(e, step["sing"], da, db)
        if kind == "operator" and step.get("zero") and "factor" in e.get("s", {}):
            e = json.loads(json.dumps(e))
            e["s"]["factor"] = 0.0 if step["opcall"] != "a/s" else float("inf")  # a / (1/inf) = a / 0.0
        elems = [e] * lattice.N
        ka = KINDS[h % len(KINDS)]
        SA = R.SYSTEMS[da]
        sa = SA[(h >> 4) % len(SA)] if kind != "singular" else opcheck.CART[da]
        cfg = {"op": op.name, "da": da, "db": db, "ka": ka, "sa": R.sysname(sa), "fa": "m" if op.momentum else "gm"[(h >> 8) % 2],
               "scal": "py", "extra": bool((h >> 9) % 2), "spa": "generic"}
        if db:
            SB = R.SYSTEMS[db]
            cfg["sb"] = R.sysname(SB[(h >> 10) % len(SB)] if kind != "singular" else opcheck.CART[db])
            cfg["fb"] = "gm"[(h >> 14) % 2]
            kb = (ka, "object", "record", "flat")[(h >> 15) % 4]
            if "axis" in op.tags and ka in ("object", "record") and kb in lattice.ARRAY_KINDS:
                kb = "object"
            cfg["kb"] = kb
            cfg["spb"] = "generic"
        if kind == "operator":
            cfg["_call"] = c03.OPCALLS[step["opcall"]][1]
        o = lattice.evaluate(cfg, elems, want_ref=False)
        if o.skipped:
            return ("skip", o.skipped)
        if o.exc is not None:
            return ("exc", type(o.exc).__name__)
        try:
            return ("ok", c14._bits(o.result))
        except Exception as ex:  # noqa: BLE001
            return ("ok", "unreadable:" + type(ex).__name__)
    if kind == "construct":
        c = step["v"]["c"]
        try:
            w = step["which"]
            if w == "obj":
                r = vector.obj(x=c[0], y=c[1], z=c[2], t=c[3])
            elif w == "array":
                r = vector.array({"x": [c[0], 1.0], "y": [c[1], 2.0], "z": [c[2], 3.0]})
            elif w == "zip":
                r = vector.zip({"x": [[c[0]], [], [1.0, 2.0]], "y": [[c[1]], [], [3.0, 4.0]]})
            elif w == "Array":
                r = vector.Array([{"rho": abs(c[0]), "phi": 0.3, "eta": 0.1, "tau": 1.0}])
            elif w in ("np_getitem", "np_setitem"):
                m_ = vector.array({"pt": [abs(c[0]), 1.0], "phi": [0.1, 0.2], "eta": [0.3, -0.3], "mass": [0.1, 0.2]})
                if w == "np_getitem":
                    r = tuple(float(m_[nm][0]) for nm in ("phi", "pt", "rho", "eta", "mass", "tau", "M"))
                else:
                    m_["phi"] = [0.5, 0.6]
                    m_["pt"] = [2.0, 3.0]
                    m_[0:1] = numpy.array([(1.0, 0.5, 0.25, 2.0)], dtype=[("pt", float), ("phi", float), ("eta", float), ("mass", float)])
                    r = m_
                g_ = vector.array({"rho": [1.0], "phi": [0.5]})
                if type(g_).__name__ != "VectorNumpy2D":
                    return ("ok", "generic constructor returned " + type(g_).__name__)
                return ("ok", c14._bits(r) if w == "np_setitem" else r)
            elif w in ("Array_behavior", "zip_behavior"):
                # an input that carries its own (foreign) behavior entries: they belong to that array, not to the library
                foreign = {("__verif__", f"k{h % 3}"): _errcall, "*": ak.behavior.get("*", None) or _Log}
                if w == "Array_behavior":
                    src = ak.Array([{"x": c[0], "y": c[1]}, {"x": 1.0, "y": 2.0}], behavior=foreign)
                    r = vector.Array(src)
                else:
                    src = ak.Array([c[0], 1.0], behavior=foreign)
                    r = vector.zip({"x": src, "y": ak.Array([c[1], 2.0], behavior=foreign)})
            else:
                r = vector.zip({"pt": [abs(c[0]), 1.0], "phi": [0.1, 0.2], "eta": [0.3, -0.3], "mass": [0.1, 0.2]})
            return ("ok", c14._bits(r))
        except Exception as ex:  # noqa: BLE001
            return ("exc", type(ex).__name__)
    # calls that are expected to raise
    w = step["which"]
    a2, a3, a4 = vector.obj(x=1.0, y=2.0), vector.obj(x=1.0, y=2.0, z=3.0), vector.obj(x=1.0, y=2.0, z=3.0, t=9.0)
    arr4 = vector.array({"x": [1.0, 2.0], "y": [1.0, 2.0], "z": [1.0, 2.0], "t": [5.0, 6.0]})
    ak3 = vector.zip({"x": [[1.0], []], "y": [[2.0], []], "z": [[3.0], []]})
    calls = {
        "dims_add": lambda: (arr4 if h % 2 else a4).add(ak3 if h % 3 else a3),
        "dims_dot": lambda: a2.dot(a3),
        "cross4": lambda: a4.cross(a4),
        "boost2d": lambda: arr4.boost(a2),
        "bad_obj": lambda: vector.obj(x=1.0, y="2"),
        "bad_names": lambda: vector.obj(x=1.0, z=2.0),
        "bad_array": lambda: vector.array({"x": [1.0], "theta": [2.0]}),
        "two_kw": lambda: a2.to_Vector4D(z=1.0, eta=2.0),
        "bad_order": lambda: a3.rotate_euler(0.1, 0.2, 0.3, "abc"),
        "div0": lambda: (a4 if h % 2 else arr4) / (0 if h % 4 < 2 else numpy.float64(0.0)),
        # reductions and indexing that raise after their own set-up code has run
        "sum_bad_axis": lambda: (numpy.sum(arr4, axis=3) if h % 3 == 0 else (arr4.sum(axis="0") if h % 3 == 1 else numpy.sum(arr4, axis=-5))),
        "aksum_bad_axis": lambda: ak.sum(ak3, axis=7),
        "sum_where": lambda: numpy.sum(arr4, where=numpy.array([True, False])),
        "count_bad_axis": lambda: numpy.count_nonzero(arr4, axis=4),
        "getitem_bad": lambda: arr4["nope"] if h % 2 else arr4[5],
        "eq_dims": lambda: ak3 == arr4,
        "like_bad": lambda: a3.like(5),
    }
    try:
        r = calls[w]()
        try:
            return ("ok", c14._bits(r))
        except Exception:  # noqa: BLE001
            return ("ok", repr(r)[:40])
    except Exception as ex:  # noqa: BLE001
        return ("exc", type(ex).__name__)


def check_case(cell, case, ctx):
    g = cell["group"]
    if g == "history":
        _history(cell, case, ctx)
    elif g == "register":
        _register(cell, case, ctx)
    elif g == "threads":
        _threads(cell, case, ctx)
    elif g == "hooks":
        _hooks(cell, case, ctx)
    elif g == "sweep":
        _sweep(cell, case, ctx)
    else:
        _cold(cell, case, ctx)
    ctx.evaluations -= 1


def _history(cell, case, ctx):
    if cell["registered"] and not getattr(vector, "_awkward_registered", False):
        vector.register_awkward()
    saved_err = numpy.geterr()
    saved_call = numpy.geterrcall()
    saved_print = numpy.get_printoptions()
    cfg = case["config"]
    be = "registered" if cell["registered"] else "unregistered"
    try:
        with warnings.catch_warnings():
            warnings.simplefilter(cfg["warn"])
            numpy.seterrcall(_Log() if "log" in cfg["err"].values() else _errcall)
            numpy.seterr(**cfg["err"])
            numpy.set_printoptions(precision=cfg["precision"])
            nondefault = cfg["warn"] != "default" or any(v != "warn" for v in cfg["err"].values())
            outcomes = []
            for i, step in enumerate(case["steps"]):
                before = gsnap()
                with warnings.catch_warnings(record=False):
                    pass
                outcome = run_step(step, cell["registered"])
                outcomes.append(outcome)
                after = gsnap()
                ctx.evaluation()
                d = gdiff(before, after)
                if d is not None:
                    name = step.get("op") or step.get("which")
                    ctx.fail("state_changed", f"step {i} {step['kind']}:{name} ({outcome[0]} {str(outcome[1])[:60]}) under seterr={cfg['err']} "
                             f"warnings={cfg['warn']} changed global state: {d}", op=str(name), variant=step["kind"], backend=be)
                    return
                if outcome[0] == "exc" or step["kind"] in ("singular", "kernel_raise"):
                    if nondefault:
                        ctx.nontrivial(key=[cell["id"], i, step.get("op") or step.get("which"), step["h"], cfg], sample={
                            "step": {k: v for k, v in step.items() if k != "elem"}, "outcome": outcome[0], "config": cfg})
                ctx.stratum(step["kind"] + ":" + outcome[0])
            # operations are pure functions of their operands: the same calls evaluated again, in the opposite order and
            # after everything else, give bit-identical outcomes (no result cache, no state carried from call to call)
            for i in reversed(range(len(case["steps"]))):
                step = case["steps"][i]
                again = run_step(step, cell["registered"])
                ctx.evaluation()
                if again != outcomes[i]:
                    name = step.get("op") or step.get("which")
                    ctx.fail("history_dependent", f"step {i} {step['kind']}:{name} gave {str(outcomes[i])[:160]} in the history and "
                             f"{str(again)[:160]} when evaluated again afterwards (same operands, same settings)", op=str(name),
                             variant=step["kind"], backend=be)
                    return
    finally:
        numpy.seterr(**saved_err)
        numpy.seterrcall(saved_call)
        numpy.set_printoptions(**saved_print)
    # ... and they do not depend on what the process has computed before: the same calls in a fresh interpreter, in the
    # opposite order, give the same outcomes (a module-level result cache or a lazily initialised table would show here)
    if ctx.tier == "thorough" or case["steps"][0]["h"] % 4 == 0:
        job = json.dumps({"steps": case["steps"], "config": cfg, "registered": cell["registered"]})
        p = subprocess.run([sys.executable, "-c", FRESH, str(env.SRC), str(env.VERIF)], input=job, capture_output=True, text=True,
                           env=dict(os.environ, PYTHONHASHSEED="0"))
        line = [l for l in p.stdout.splitlines() if l.startswith("RESULT ")]
        if p.returncode != 0 or not line:
            raise env.HarnessError(f"fresh-interpreter evaluation failed: {p.stderr[-400:]}")
        fresh = json.loads(line[-1][7:])
        ctx.evaluation(len(fresh))
        for i, (a, b) in enumerate(zip(outcomes, fresh)):
            if repr(a) != b:
                step = case["steps"][i]
                name = step.get("op") or step.get("which")
                ctx.fail("history_dependent", f"step {i} {step['kind']}:{name} gave {repr(a)[:160]} after {i} earlier calls and {b[:160]} in a "
                         f"fresh interpreter that ran the calls in the opposite order", op=str(name), variant=step["kind"], backend=be)
                return
        ctx.note("fresh_interpreter_comparisons")


def outcomes_in_config(steps, cfg, registered):
    """evaluate steps under the configured error/warning/print settings -> list of repr(outcome)"""
    if registered and not getattr(vector, "_awkward_registered", False):
        vector.register_awkward()
    out = []
    with warnings.catch_warnings():
        warnings.simplefilter(cfg["warn"])
        numpy.seterrcall(_Log() if "log" in cfg["err"].values() else _errcall)
        numpy.seterr(**cfg["err"])
        numpy.set_printoptions(precision=cfg["precision"])
        for step in steps:
            out.append(repr(run_step(step, registered)))
    return out


FRESH = r'''
import json, sys
sys.path.insert(0, sys.argv[2])
from vcheck import env
env.setup()
from vcheck.props import c20
job = json.load(sys.stdin)
res = c20.outcomes_in_config(job["steps"][::-1], job["config"], job["registered"])[::-1]
print("RESULT " + json.dumps(res))
'''


def _register(cell, case, ctx):
    what = cell["what"]
    f = vector.register_awkward if what == "awkward" else vector.register_numba
    s0 = gsnap()
    try:
        f()
    except Exception as e:  # noqa: BLE001
        ctx.fail("register_raises", f"register_{what}() raised {type(e).__name__}: {e!s:.200}", op="register_" + what, variant="first",
                 backend="global")
        return
    s1 = gsnap()
    f()
    s2 = gsnap()
    ctx.evaluation(2)
    d = gdiff(s1, s2)
    if d is not None:
        ctx.fail("not_idempotent", f"second register_{what}() changed global state: {d}", op="register_" + what, variant="second",
                 backend="global")
        return
    if what == "awkward":
        if not vector._awkward_registered:
            ctx.fail("not_registered", "vector._awkward_registered is False after register_awkward()", op="register_awkward",
                     variant="flag", backend="global")
            return
        missing = [k for k in vector.backends.awkward.behavior if k not in ak.behavior]
        if missing:
            ctx.fail("not_registered", f"{len(missing)} behaviors missing from awkward.behavior after register_awkward()",
                     op="register_awkward", variant="keys", backend="global")
            return
    # nothing but the registries may have changed
    for k in ("numpy.geterr", "numpy.geterrcall", "warnings.filters", "numpy.printoptions", "switchinterval"):
        if s0[k] != s1[k]:
            ctx.fail("state_changed", f"register_{what}() changed {k}", op="register_" + what, variant="first", backend="global")
            return
    # and vector operations afterwards leave it alone
    steps = [{"kind": "construct", "which": w, "h": 3, "v": {"c": [1.0, 2.0, 3.0, 9.0]}} for w in ("zip", "Array", "zip_mom", "array", "obj")]
    for stp in steps:
        b = gsnap()
        run_step(stp, True)
        d = gdiff(b, gsnap())
        ctx.evaluation()
        if d is not None:
            ctx.fail("state_changed", f"{stp['which']} after register_{what}() changed global state: {d}", op=stp["which"], variant="after",
                     backend="global")
            return
    ctx.nontrivial(key=[what, 1], sample={"register": what})
    ctx.nontrivial(key=[what, 2], sample={"register": what, "second_call": "no change"})


def _threads(cell, case, ctx):
    steps = [s for _ in range(case["repeat"]) for s in case["pool"]]
    seq = [run_step(s) for s in steps]
    # operations are pure functions of their operands: a second sequential evaluation (in reverse order) gives the same results
    seq2 = [run_step(s) for s in reversed(steps)][::-1]
    for i, (r1, r2) in enumerate(zip(seq, seq2)):
        if r1 != r2:
            name = steps[i].get("op") or steps[i].get("which")
            ctx.fail("not_pure", f"call {i} ({steps[i]['kind']}:{name}) gave {str(r1)[:200]} the first time and {str(r2)[:200]} when the "
                     f"same call list was evaluated again in reverse order", op=str(name), variant="history", backend="sequential")
            return
    nthreads = 16
    old = sys.getswitchinterval()
    # per-thread error modes that do not raise: a thread's own 'raise' mode legitimately turns x / 0.0 (computed by the
    # operator before dispatch) into FloatingPointError, which is not an effect of concurrency
    modes = [dict(zip(("divide", "over", "under", "invalid"), [("ignore", "warn")[(t + j) % 2] for j in range(4)])) for t in range(nthreads)]
    wctx = warnings.catch_warnings()
    wctx.__enter__()
    warnings.simplefilter("ignore")
    try:
        sys.setswitchinterval(1e-6)
        for rep in range(3):
            perm = (case["perm"] + rep * 7919) % 97 + 1
            order = sorted(range(len(steps)), key=lambda i: (i * perm) % len(steps))
            parts = [order[t::nthreads] for t in range(nthreads)]
            if rep == 2:
                # every thread runs the same calls: maximal contention on one operation
                parts = [order[: max(1, len(order) // 8)] for _ in range(nthreads)]
            results = [dict() for _ in range(nthreads)]
            errs = [None] * nthreads
            barrier = threading.Barrier(nthreads)

            def work(t):
                try:
                    numpy.seterr(**modes[t])
                    barrier.wait()
                    for i in parts[t]:
                        results[t][i] = run_step(steps[i])
                    got = dict(numpy.geterr())
                    if got != modes[t]:
                        errs[t] = ("geterr", got, modes[t])
                except Exception as e:  # noqa: BLE001
                    errs[t] = ("exception", repr(e))

            ths = [threading.Thread(target=work, args=(t,)) for t in range(nthreads)]
            g0 = gsnap()
            for th in ths:
                th.start()
            for th in ths:
                th.join()
            dstate = gdiff(g0, gsnap())
            if dstate is not None:
                ctx.fail("thread_state", f"{len(steps)} calls on {nthreads} threads (partition {rep}) changed process-wide state: {dstate}",
                         op="threads", variant="state", backend="threads")
                return
            for t in range(nthreads):
                if errs[t] is not None:
                    if errs[t][0] == "geterr":
                        ctx.fail("thread_errstate", f"thread {t} set numpy.seterr({errs[t][2]}) but sees {errs[t][1]} after its calls",
                                 op="threads", variant="errstate", backend="threads")
                    else:
                        ctx.fail("thread_exception", f"thread {t} failed: {errs[t][1]}", op="threads", variant="exception", backend="threads")
                    return
                for i, r in results[t].items():
                    ctx.evaluation()
                    if r != seq[i]:
                        name = steps[i].get("op") or steps[i].get("which")
                        ctx.fail("thread_result", f"call {i} ({steps[i]['kind']}:{name}) gave {str(r)[:200]} on thread {t} but "
                                 f"{str(seq[i])[:200]} sequentially (partition {rep})", op=str(name), variant="threads", backend="threads")
                        return
            ctx.nontrivial(key=[cell["id"], rep, case["perm"]], sample={"calls": len(steps), "threads": nthreads, "partition": rep})
    finally:
        sys.setswitchinterval(old)
        wctx.__exit__(None, None, None)


def _light_state():
    return (tuple(sorted(numpy.geterr().items())), id(numpy.geterrcall()), len(warnings.filters), tuple(id(f) for f in warnings.filters[:8]),
            tuple(sorted((k, repr(v)) for k, v in numpy.get_printoptions().items())), len(ak.behavior), len(vector.backends.awkward.behavior),
            getattr(vector, "_awkward_registered", None))


def _sweep(cell, case, ctx):
    """one call per (operation, signature) on the object backend (plus NumPy for the shard's first signature), process-wide
    state compared around every call, under a non-default error state and warnings filter"""
    names = sorted(n for n, o in OPS.items() if "synonym" not in o.tags)
    mine = [n for i, n in enumerate(names) if i % 16 == cell["shard"]]
    saved_err = numpy.geterr()
    try:
        with warnings.catch_warnings():
            warnings.simplefilter("error" if cell["shard"] % 2 else "always")
            numpy.seterr(divide="warn", over="warn", under="ignore", invalid="warn")
            for name in mine:
                op = OPS[name]
                for da in op.self_dims:
                    for db in op.other_dims(da):
                        for sa in R.SYSTEMS[da]:
                            for sb in (R.SYSTEMS[db] if db else [None]):
                                a = tuple(mpf(x) for x in case["a"]["c"][:da])
                                bsrc = case["b"]["c"] if db != 3 or "boost" not in op.tags else [*case["beta3"], 0.0]
                                b = tuple(mpf(x) for x in bsrc[:db]) if db else None
                                if not R.representable(sa, a) or (db and not R.representable(sb, b)):
                                    continue
                                v = mpbackend.make(sa, tuple(float(x) for x in R.from_cartesian(sa, a)), op.momentum, False)
                                w = mpbackend.make(sb, tuple(float(x) for x in R.from_cartesian(sb, b)), False, False) if db else None
                                s_ = {k: case["s"][k] for k in op.scalars}
                                before = _light_state()
                                try:
                                    op.call(v, w, s_)
                                    outcome = "returned"
                                except Exception as ex:  # noqa: BLE001
                                    outcome = "raised " + type(ex).__name__
                                after = _light_state()
                                ctx.evaluation()
                                if before != after:
                                    full = [x for x, y in zip(before, after) if x != y]
                                    ctx.fail("state_changed", f"{name} on {da}{R.sysname(sa)}" + (f"+{db}{R.sysname(sb)}" if db else "") +
                                             f" ({outcome}) changed process-wide state: {str(full)[:200]} -> "
                                             f"{str([y for x, y in zip(before, after) if x != y])[:200]}", op=name,
                                             variant=f"{da}{R.sysname(sa)}" + (f"+{db}{R.sysname(sb)}" if db else ""), backend="object")
                                    return
                ctx.nontrivial(key=[cell["id"], name], sample={"operation": name, "signatures": "all"})
            # interference between calls, per operation and array backend: the same call before and after a call of the same
            # operation on other operands that carry non-coordinate fields (another layout, another system) gives the same bits
            allnames = names + sorted(catalog.EXTRA_OPS)
            for name in [n for i, n in enumerate(allnames) if i % 16 == cell["shard"]]:
                op = catalog.get(name)
                for da in op.self_dims:
                    db = (op.other_dims(da) or [None])[0]
                    bsrc = case["b"] if db != 3 or "boost" not in op.tags else {"stratum": "beta3", "c": [*case["beta3"], 0.0]}
                    e = {"rel": "independent", "a": case["a"], "b": bsrc, "s": {k: case["s"][k] for k in op.scalars if k in case["s"]}}
                    if set(op.scalars) - set(e["s"]):
                        continue
                    for ki, kname in enumerate(KINDS):
                        if kname not in ("flat", "np1", "jagged"):
                            continue
                        other = [i for i, k_ in enumerate(KINDS) if k_ in (("jagged", "flat") if kname != "np1" else ("np1",)) and k_ != kname]
                        ko = other[0] if other else ki
                        # (run_step decodes h: kind = h % len(KINDS), system from bits 4.., extra fields from bit 9)
                        hp = next(h_ for h_ in range(16, 512) if h_ % len(KINDS) == ki)
                        hl = next(h_ for h_ in range(512 + 32, 1024) if h_ % len(KINDS) == ko)
                        plain = {"kind": "op", "op": name, "da": da, "db": db, "elem": e, "h": hp}
                        loaded = {"kind": "op", "op": name, "da": da, "db": db, "elem": e, "h": hl}
                        r1 = run_step(plain)
                        if r1[0] == "skip":
                            continue
                        run_step(loaded)
                        r3 = run_step(plain)
                        ctx.evaluation()
                        if r1 != r3:
                            ctx.fail("history_dependent", f"{name} on a {da}D {kname} operand gave {str(r1)[:160]} at first and {str(r3)[:160]} "
                                     f"after one call of {name} on another operand carrying the fields charge / tag", op=name,
                                     variant=f"{da}|{kname}", backend="array")
                            return
    finally:
        numpy.seterr(**saved_err)


def _hook_calls(case):
    """every operator / ufunc / reduction entry point of every backend on small fixed-size operands"""
    a, b, f = case["v"]["c"], case["w"]["c"], case["s"]
    mk = {
        "object": lambda c: vector.obj(x=c[0], y=c[1], z=c[2], t=c[3]),
        "numpy": lambda c: vector.array({"x": [c[0], 1.0], "y": [c[1], 2.0], "z": [c[2], 3.0], "t": [c[3], 9.0]}),
        "numpy-tau": lambda c: vector.array({"rho": [abs(c[0]), 1.0], "phi": [0.3, 2.0], "eta": [0.1, -1.0], "tau": [abs(c[3]), 2.0]}),
        "awkward": lambda c: vector.zip({"x": [[c[0]], [], [1.0]], "y": [[c[1]], [], [2.0]], "z": [[c[2]], [], [3.0]], "t": [[c[3]], [], [9.0]]}),
    }
    calls = []
    for be, make in mk.items():
        A, B = make(a), make(b)
        calls += [
            (be, "a+b", lambda A=A, B=B: A + B), (be, "a-b", lambda A=A, B=B: A - B), (be, "a*s", lambda A=A: A * f),
            (be, "s*a", lambda A=A: f * A), (be, "a/s", lambda A=A: A / f), (be, "a/0", lambda A=A: A / 0.0), (be, "-a", lambda A=A: -A),
            (be, "+a", lambda A=A: +A), (be, "abs", lambda A=A: abs(A)), (be, "a**2", lambda A=A: A**2), (be, "a**3", lambda A=A: A**3),
            (be, "a==b", lambda A=A, B=B: A == B), (be, "a!=b", lambda A=A, B=B: A != B),
            (be, "sqrt", lambda A=A: numpy.sqrt(A)), (be, "isclose", lambda A=A, B=B: A.isclose(B)),
        ]
        if be.startswith("numpy"):
            calls += [(be, "sum", lambda A=A: numpy.sum(A)), (be, "count_nonzero", lambda A=A: numpy.count_nonzero(A)),
                      (be, "numpy.isclose", lambda A=A, B=B: numpy.isclose(A, B)), (be, "repr", lambda A=A: len(repr(A))),
                      (be, "a@b", lambda A=A, B=B: A @ B)]
        if be == "awkward":
            calls += [(be, "ak.sum", lambda A=A: ak.sum(A, axis=-1)), (be, "ak.count_nonzero", lambda A=A: ak.count_nonzero(A, axis=-1))]
        if be == "object":
            calls += [(be, "a@b", lambda A=A, B=B: A @ B), (be, "repr", lambda A=A: len(repr(A)))]
    return calls


def _hooks(cell, case, ctx):
    calls = _hook_calls(case)

    def run(i):
        be, name, fcall = calls[i]
        try:
            r = fcall()
        except Exception as ex:  # noqa: BLE001
            return ("exc", type(ex).__name__)
        try:
            return ("ok", c14._bits(r))
        except Exception:  # noqa: BLE001
            return ("ok", repr(r))

    nthreads = 16
    old = sys.getswitchinterval()
    wctx = warnings.catch_warnings()
    wctx.__enter__()
    warnings.simplefilter("ignore")
    try:
        seq = [run(i) for i in range(len(calls))]
        sys.setswitchinterval(1e-6)
        results = [None] * nthreads
        barrier = threading.Barrier(nthreads)
        g0 = gsnap()

        def work(t):
            barrier.wait()
            out = []
            for rep in range(case["repeat"]):
                for k in range(len(calls)):
                    i = (k * ((case["perm"] + t) % 7 + 1) + t) % len(calls)
                    out.append((i, run(i)))
            results[t] = out

        ths = [threading.Thread(target=work, args=(t,)) for t in range(nthreads)]
        for th in ths:
            th.start()
        for th in ths:
            th.join()
        dstate = gdiff(g0, gsnap())
        sys.setswitchinterval(old)
        ctx.evaluation(nthreads * case["repeat"] * len(calls))
        if dstate is not None:
            ctx.fail("thread_state", f"{len(calls)} operator/ufunc entry points called {case['repeat']} times on {nthreads} threads changed "
                     f"process-wide state: {dstate}", op="threads", variant="state", backend="threads")
            return
        for t in range(nthreads):
            for i, r in results[t] or []:
                if repr(r) != repr(seq[i]):
                    ctx.fail("thread_result", f"{calls[i][0]} {calls[i][1]} gave {str(r)[:160]} on thread {t} but {str(seq[i])[:160]} "
                             f"sequentially", op=calls[i][1], variant="threads", backend=calls[i][0])
                    return
        ctx.nontrivial(key=[cell["id"], case["perm"]], sample={"entry_points": len(calls), "threads": nthreads, "repeat": case["repeat"]})
    finally:
        sys.setswitchinterval(old)
        wctx.__exit__(None, None, None)


COLD = r'''
import json, sys, threading
sys.path.insert(0, sys.argv[1])
sys.setswitchinterval(1e-6)
import vector
calls = [
    ("deltaR", lambda a, b: a.deltaR(b)), ("boost_p4", lambda a, b: a.boost_p4(b).t), ("rotate_euler", lambda a, b: a.rotate_euler(0.1, 0.2, 0.3).x),
    ("to_rhophietatau", lambda a, b: a.to_rhophietatau().tau), ("add", lambda a, b: a.add(b).z), ("unit", lambda a, b: a.unit().x),
    ("rapidity", lambda a, b: a.rapidity), ("Et", lambda a, b: vector.obj(px=1.0, py=2.0, pz=3.0, E=9.0).Et), ("cross", lambda a, b: a.to_Vector3D().cross(b.to_Vector3D()).x),
    ("deltaphi", lambda a, b: a.deltaphi(b)), ("is_timelike", lambda a, b: a.is_timelike()), ("transform4D", lambda a, b: a.boostX(beta=0.3).y),
    ("isclose", lambda a, b: a.isclose(b)), ("scale", lambda a, b: (a * 2.5).t), ("gamma", lambda a, b: a.gamma), ("mt", lambda a, b: a.to_xyzt().tau2),
]
a = vector.obj(x=1.5, y=-2.25, z=3.125, t=9.5)
b = vector.obj(rho=2.5, phi=0.75, eta=-0.5, tau=1.25)
n = 16
out = [None] * n
barrier = threading.Barrier(n)
def work(i):
    barrier.wait()
    res = []
    for k in range(len(calls)):
        name, f = calls[(i + k) % len(calls)]
        try:
            r = f(a, b)
            res.append((name, float(r).hex() if not isinstance(r, bool) else r))
        except Exception as e:
            res.append((name, "EXC " + type(e).__name__ + " " + str(e)[:80]))
    out[i] = res
ths = [threading.Thread(target=work, args=(i,)) for i in range(n)]
[t.start() for t in ths]; [t.join() for t in ths]
seq = {}
for name, f in calls:
    r = f(a, b)
    seq[name] = float(r).hex() if not isinstance(r, bool) else r
bad = []
for i, res in enumerate(out):
    for name, r in res:
        if r != seq[name]:
            bad.append([i, name, r, seq[name]])
print(json.dumps({"bad": bad, "n": sum(len(r) for r in out)}))
'''


def _cold(cell, case, ctx):
    reps = 4
    for rep in range(reps):
        p = subprocess.run([sys.executable, "-c", COLD, str(env.SRC)], capture_output=True, text=True, env=dict(os.environ, PYTHONHASHSEED="0"))
        ctx.evaluation(16 * 16)
        if p.returncode != 0:
            ctx.fail("cold_start_crash", f"cold-start threaded subprocess exited {p.returncode}: {p.stderr[-400:]}", op="cold_start",
                     variant="subprocess", backend="threads")
            return
        res = json.loads(p.stdout.strip().splitlines()[-1])
        if res["bad"]:
            ctx.fail("thread_result", f"cold start: {len(res['bad'])} of {res['n']} concurrent first calls differ from sequential results, e.g. "
                     f"{res['bad'][:3]}", op="cold_start", variant="threads", backend="threads")
            return
        ctx.nontrivial(key=["cold", rep], sample={"cold_start_threads": 16, "calls": res["n"]})


def describe(cell, case):
    if "pool" in case:
        return {"pool_size": len(case["pool"]), "repeat": case["repeat"],
                "first_calls": [{k: v for k, v in s.items() if k != "elem"} for s in case["pool"][:4]]}
    if "steps" in case:
        return {"config": case.get("config"), "n_steps": len(case["steps"]),
                "first_steps": [{k: v for k, v in s.items() if k != "elem"} for s in case["steps"][:4]]}
    return case
