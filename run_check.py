#!/venv/bin/python
"""Single entry point:  run_check.py <ID> --tier quick|thorough [--replay FILE]"""
import os
import sys

sys.path.insert(0, os.path.dirname(os.path.abspath(__file__)))

from vcheck import env  # noqa: E402

if __name__ == "__main__":
    env.reexec_with_hashseed()
    from vcheck import runner  # noqa: E402

    sys.exit(runner.main())
