#!/venv/bin/python
"""import an independently written breaking change:  tools/import_seed.py <src dir> <name> <property> "<needs>" "<tests line>" """
import json, pathlib, shutil, sys
src, name, prop, needs, tests = sys.argv[1:6]
d = pathlib.Path(__file__).resolve().parent.parent / "seeded" / name
d.mkdir(parents=True, exist_ok=True)
for f in ("patch.diff", "demo.py", "note.md"):
    shutil.copy(pathlib.Path(src) / f, d / f)
meta = {"property": prop, "origin": "written by an independent sub-agent that saw only the property text and its own scratch worktree",
        "needs_to_manifest": needs,
        "confirmed": {"how": "tools/confirm_seed.sh in a fresh scratch worktree of /repo HEAD: git apply; demo.py with and without the change; full pytest run",
                      "patch_applies": True, "demo_exit_with_change": 1, "demo_exit_unchanged": 0, "existing_tests_with_change": tests},
        "run_checks": [prop]}
(d / "meta.json").write_text(json.dumps(meta, indent=1) + "\n")
print("imported", d)
