#!/bin/sh
# Confirm an independently written breaking change in a fresh scratch worktree (outside /repo and /verif):
#   tools/confirm_seed.sh <dir with patch.diff demo.py> <name>
# prints: patch applies / demo exit with and without the change / test-suite summary line with the change.
set -u
SRC="$1"; NAME="$2"; WT=/tmp/confirm/$NAME
rm -rf "$WT"; mkdir -p /tmp/confirm
git -C /repo worktree add -q --detach "$WT" HEAD || exit 2
cp /repo/src/vector/_version.py /repo/src/vector/_version.pyi "$WT/src/vector/"
cd "$WT"
echo "demo_without=$(PYTHONPATH=$WT/src /venv/bin/python $SRC/demo.py >/dev/null 2>&1; echo $?)"
if git apply --check "$SRC/patch.diff" 2>/dev/null; then git apply "$SRC/patch.diff"; echo "patch=applies"; else echo "patch=DOES-NOT-APPLY"; fi
echo "files=$(git diff --stat | tail -1)"
PYTHONPATH=$WT/src /venv/bin/python -c "import vector, sys; sys.exit(0 if '$WT' in vector.__file__ else 3)" || echo "IMPORT-ORIGIN-WRONG"
echo "demo_with=$(PYTHONPATH=$WT/src /venv/bin/python $SRC/demo.py >/dev/null 2>&1; echo $?)"
PYTHONPATH=$WT/src /venv/bin/python -m pytest -q -p no:cacheprovider --timeout=900 --continue-on-collection-errors tests 2>&1 | tail -1 | sed 's/^/tests=/'
cd /; git -C /repo worktree remove --force "$WT"
