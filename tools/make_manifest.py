#!/venv/bin/python
"""Regenerates MANIFEST.json from the table below (one entry per property that has a
check module under vcheck/props; every other property goes to not_applicable with a
reason) and validates it against the schema."""

import json
import os
import pathlib
import subprocess
import sys

ROOT = pathlib.Path(__file__).resolve().parent.parent
PY = "/venv/bin/python"

TRUST = ("Trusted base: CPython, numpy, mpmath (60 digits), hypothesis; the reference model vcheck/refmodel.py "
         "(written from the documentation, ~400 lines) and the catalogue vcheck/catalog.py.")

P = {
    "C01": dict(
        technique="metamorphic property-based testing: every coordinate-system signature vs the all-Cartesian signature, "
                  "exhaustive signature lattice x Hypothesis-generated stratified operands, 60-digit mpmath object backend + float64 tier",
        text="Exploration. The configuration lattice (operation x operand dimensions x stored system of each operand x Euler "
             "order) is enumerated completely through the public methods; values are sampled per cell with one sub-case per "
             "stratum (octants, near-axis, near-plane, phi near the wrap, near-light-cone, space-like, at rest, "
             "ultra-relativistic, t<0). At 60 digits a wrong helper/sign/argument in any single variant gives an O(1) "
             "disagreement against a 1e-40 tolerance, so the decision needs no rounding judgement; it is not a proof over "
             "all reals.",
        ref="DESIGN.md section 2, C01"),
    "C02": dict(
        technique="differential property-based testing against an independent 60-digit reference model written from the documentation "
                  "(mp object backend at 1e-40; float64 object and NumPy backends at 1e-9 on the well-conditioned stratum)",
        text="Exploration. Every catalogued accessor/operation is compared with the reference definition on generated "
             "operands in its regular domain, in the all-Cartesian signature and in sampled/all other signatures, at 60 digits "
             "and in float64 (object and NumPy).",
        ref="DESIGN.md section 2, C02"),
    "C03": dict(
        technique="differential property-based testing across backends: element i of NumPy/Awkward results (methods and the operator spellings + - * /) vs the object backend on identical float64 (and int64-stored) inputs, generated layouts and backend pairings",
        text="Exploration over operations x systems x flavors x layouts x backend pairings with generated element lists.",
        ref="DESIGN.md section 2, C03"),
    "C04": dict(
        technique="round-trip and identity property-based testing over the exhaustive (source system x to_* target x backend x flavor x keyword) lattice",
        text="Exploration; the conversion lattice is enumerated completely, values generated per cell; identity and "
             "pass-through are checked bit-for-bit, round trips at 1e-40 (mp) / 1e-9 (float64); on Awkward arrays and records also "
             "the sequence read -> replace a stored field in place -> convert, against a freshly assembled array.",
        ref="DESIGN.md section 2, C04"),
    "C05": dict(
        technique="exhaustive enumeration of the (method x signature x flavor x backend pairing x dimension pairing) lattice, of every conversion/projection/like() per backend kind, and of every operator vs its method, against a rule table written from the statement",
        text="Exploration with a finite lattice enumerated completely (exhaustive over configurations, two generated value sets per point).",
        ref="DESIGN.md section 2, C05"),
    "C06": dict(
        technique="exhaustive enumeration of all coordinate-name subsets (<=5 of 19 names) per constructor against an independent classifier; generated distinct values per name",
        text="Exploration with the name-set lattice enumerated completely for every constructor; values generated.",
        ref="DESIGN.md section 2, C06"),
    "C07": dict(
        technique="differential testing of generated small programs: numba.njit-compiled vs interpreted (py_func) execution",
        text="Exploration over generated programs (grammar over the numba-supported API) x coordinate systems x flavors.",
        ref="DESIGN.md section 2, C07"),
    "C08": dict(
        technique="differential property-based testing: SymPy expressions lambdified with mpmath vs the 60-digit object backend and the float64 object backend at generated regular-domain points",
        text="Exploration over every operation x signature with generated points of the documented regular domain; isclose is decided "
             "at identical stored coordinates of either sign and at single coordinates off by 30 %.",
        ref="DESIGN.md section 2, C08"),
    "C09": dict(
        technique="algebraic-law property-based testing of boosts (invariance of the Minkowski product, inverse, collinear composition, spelling identities) on the 60-digit and float64 backends",
        text="Exploration: laws checked at 1e-40 on 60-digit vectors for all signatures of vector and booster, and at rounding level in float64.",
        ref="DESIGN.md section 2, C09"),
    "C10": dict(
        technique="algebraic-law property-based testing of rotations (isometry, handedness, additivity, inverse, spelling identities incl. all 12 Euler orders) on the 60-digit and float64 backends",
        text="Exploration: laws at 1e-40 on 60-digit vectors over all signatures, angles in all quadrants, all 12 orders in both cases.",
        ref="DESIGN.md section 2, C10"),
    "C11": dict(
        technique="algebraic-law property-based testing (vector-space axioms, dot/cross identities, unit, norm functions) on the 60-digit and float64 backends",
        text="Exploration over pairs/triples in all system combinations, both flavors, three backends.",
        ref="DESIGN.md section 2, C11"),
    "C12": dict(
        technique="property-based testing of ==/!=/isclose coherence laws on generated pairs (identical / one stored component differs / several / all) across systems and backends",
        text="Exploration; boolean laws are exact (no tolerance involved) on generated pairs in every system pairing and backend, "
             "also for operands carrying a non-coordinate field with different values.",
        ref="DESIGN.md section 2, C12"),
    "C13": dict(
        technique="property-based testing of range/sign/classification invariants on stratified operands incl. exact boundary inputs, float64 backends and 60-digit backend",
        text="Exploration over boundary strata (axis-aligned, light cone, +-pi, zeros) and tolerances >= 0 in all systems.",
        ref="DESIGN.md section 2, C13"),
    "C14": dict(
        technique="exhaustive enumeration of the synonym table x backend x coordinate system with generated values; bit-for-bit comparison of synonym vs geometric name",
        text="Exploration with the synonym lattice enumerated completely; NumPy dtypes list their fields in canonical, reversed and "
             "rotated order and every synonym is also compared with the generic vector holding the same stored coordinates.",
        ref="DESIGN.md section 2, C14"),
    "C15": dict(
        technique="stateful (model-based) property testing: Hypothesis RuleBasedStateMachine over assignments and in-place operators with an explicit model of the stored coordinates",
        text="Exploration over generated histories (float64 and 60-digit machines), invariant checked after every step.",
        ref="DESIGN.md section 2, C15"),
    "C16": dict(
        technique="property-based testing with bit-for-bit operand snapshots before/after every catalogued call on object, NumPy (incl. views) and Awkward operands",
        text="Exploration over the operation x backend x layout lattice with generated operands.",
        ref="DESIGN.md section 2, C16"),
    "C17": dict(
        technique="differential property-based testing of reductions against exact (fsum) Cartesian component sums of the elements, generated arrays/axes/keepdims",
        text="Exploration over generated NumPy/Awkward arrays in all systems and flavors (empty and missing lists, missing vectors inside lists).",
        ref="DESIGN.md section 2, C17"),
    "C18": dict(
        technique="property-based testing over generated Awkward layouts (jagged, nested, option-typed, extra fields): structure/field preservation and record-vs-object differential",
        text="Exploration over generated layouts x operations x systems x flavors, extra fields incl. an option-typed one.",
        ref="DESIGN.md section 2, C18"),
    "C19": dict(
        technique="property-based testing of NumPy vector arrays against plain-ndarray indexing as reference model (generated shapes and index expressions), pickle/copy round trips",
        text="Exploration over generated shapes up to rank 3 and index expressions (incl. the empty tuple / list and Python-list indices) in all 20 systems x 2 flavors.",
        ref="DESIGN.md section 2, C19"),
    "C20": dict(
        technique="stateful property testing of global-state invariants over generated call histories under generated prior configurations; re-evaluation of every call afterwards and in a fresh interpreter (purity); generated thread schedules vs sequential execution with process-wide state compared around every threaded phase",
        text="Exploration. The history/leak part is decided on everything generated; 'for all interleavings' is explored "
             "(many partitions, tiny switch interval), not decided - the harness does not own the interpreter's scheduler.",
        ref="DESIGN.md section 2, C20"),
}

NA_REASON = {}


def main():
    props = [json.loads(l) for l in open(ROOT / "properties.jsonl")]
    checks, na = [], []
    for p in props:
        pid = p["id"]
        mod = ROOT / "vcheck" / "props" / f"{pid.lower()}.py"
        if mod.exists() and pid in P:
            m = P[pid]
            checks.append({
                "property_id": pid,
                "quick_cmd": f"{PY} run_check.py {pid} --tier quick",
                "thorough_cmd": f"{PY} run_check.py {pid} --tier thorough",
                "evidence_file": f"/verif/evidence/{pid}.json",
                "replay_cmd_template": f"{PY} run_check.py {pid} --replay {{path}}",
                "engine": "vcheck cell runner (Hypothesis per cell)",
                "level_claimed": {"category": "exploration", "text": m["text"], "design_ref": m["ref"]},
                "level_note": TRUST + " Generated-input search; absence of violations on what was explored is not a proof.",
                "technique": m["technique"],
            })
        else:
            na.append({"property_id": pid, "reason": NA_REASON.get(
                pid, "check not built yet in this session (property-based testing applies; see DESIGN.md section 2) - not claimed until its check exists")})
    manifest = {
        "version": 1,
        "setup_cmd": "sh tools/setup.sh",
        "hooks": {
            "guard": "SCIKIT_HEP_VECTOR_VERIF",
            "enable": "no hooks are needed: the checks import /repo/src directly (VERIF_REPO overrides the path); the guard variable is unused",
            "baseline_off_cmd": "cd /repo && /venv/bin/python -m pytest -ra -q -p no:cacheprovider --timeout=900 --continue-on-collection-errors",
            "source_commits": [],
            "add_only": True,
        },
        "engines": [
            {"name": "vcheck cell runner", "path": "vcheck/runner.py", "serves_properties": [c["property_id"] for c in checks],
             "kind_free_text": "enumerates the configuration lattice of a property, runs one seeded Hypothesis test per cell on 16 processes, shrinks and buckets failures by root cause, applies known_findings.json, writes evidence and replay files"},
            {"name": "60-digit object backend", "path": "vcheck/mpbackend.py", "serves_properties": ["C01", "C02", "C04", "C08", "C09", "C10", "C11", "C13", "C15"],
             "kind_free_text": "subclasses of the real object vector classes with an mpmath lib: real dispatch and compute variants at 60 digits"},
            {"name": "reference model", "path": "vcheck/refmodel.py", "serves_properties": ["C01", "C02", "C04", "C09", "C10", "C11", "C13", "C17"],
             "kind_free_text": "independent mpmath implementation of the documented definitions on canonical Cartesian components"},
        ],
        "checks": checks,
        "not_applicable": na,
        "notes": "Single entry point run_check.py <ID> --tier quick|thorough [--replay FILE]; exit 0 held / 1 VIOLATION / 2 harness error. "
                 "known_findings.json lists recorded (known) and repaired (fixed) defects. seeded/ holds independently written breaking changes used to test the checks.",
    }
    import jsonschema

    schema = json.loads((ROOT / "tools" / "MANIFEST.schema.json").read_text())
    jsonschema.validate(manifest, schema)
    (ROOT / "MANIFEST.json").write_text(json.dumps(manifest, indent=1) + "\n")
    print("MANIFEST.json:", len(checks), "checks,", len(na), "not_applicable")


if __name__ == "__main__":
    main()
