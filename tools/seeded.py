#!/venv/bin/python
"""Run checks against the independently written breaking changes kept under seeded/<name>/.

    tools/seeded.py [--only NAME[,NAME]] [--props C01,C02 | --all] [--tier quick]

Each change is applied (patch -p1) to a scratch copy of /repo's working tree outside /repo
and /verif; the checks run with VERIF_REPO pointing at the copy (equivalent to
`git -C /repo apply`, without disturbing anything else that reads /repo); the demonstration
program is run against the copy and against the unchanged tree.  Results are written to
seeded/<name>/meta.json (field "checks") and seeded/REPORT.json."""

import argparse
import json
import os
import pathlib
import shutil
import subprocess
import sys
import tempfile
import time

ROOT = pathlib.Path(__file__).resolve().parent.parent
REPO = pathlib.Path("/repo")
ALL = [f"C{i:02d}" for i in range(1, 21)]


def run_demo(demo, src):
    env = dict(os.environ, PYTHONPATH=str(src))
    r = subprocess.run([sys.executable, str(demo)], env=env, capture_output=True, text=True, cwd="/tmp")
    return r.returncode, (r.stdout + r.stderr)[-300:]


def main():
    ap = argparse.ArgumentParser()
    ap.add_argument("--only")
    ap.add_argument("--props")
    ap.add_argument("--all", action="store_true")
    ap.add_argument("--tier", default="quick")
    a = ap.parse_args()
    names = sorted(p.name for p in (ROOT / "seeded").iterdir() if (p / "patch.diff").exists())
    if a.only:
        names = [n for n in names if n in a.only.split(",")]
    report = {}
    rep = ROOT / "seeded" / "REPORT.json"
    if rep.exists():
        report = json.loads(rep.read_text())
    for name in names:
        d = ROOT / "seeded" / name
        meta = json.loads((d / "meta.json").read_text()) if (d / "meta.json").exists() else {}
        props = a.props.split(",") if a.props else (ALL if a.all else meta.get("run_checks", [meta.get("property", name[:3])]))
        scratch = pathlib.Path(tempfile.mkdtemp(prefix="vp-seeded-"))
        try:
            shutil.copytree(REPO / "src", scratch / "src")
            r = subprocess.run(["patch", "-p1", "-s", "-i", str(d / "patch.diff")], cwd=scratch, capture_output=True, text=True)
            if r.returncode != 0:
                print(f"{name}: patch does not apply: {r.stdout} {r.stderr}")
                continue
            demo = {}
            if (d / "demo.py").exists():
                demo["with_change"] = run_demo(d / "demo.py", scratch / "src")[0]
                demo["unchanged"] = run_demo(d / "demo.py", REPO / "src")[0]
            res = {}
            for pid in props:
                env = dict(os.environ, VERIF_REPO=str(scratch), VCHECK_EVIDENCE_DIR=str(scratch / "evidence"),
                           VCHECK_REPLAY_DIR=str(scratch / "replays"))
                env.pop("VCHECK_PYCACHE", None)
                env.pop("PYTHONPYCACHEPREFIX", None)
                t0 = time.time()
                p = subprocess.run([sys.executable, str(ROOT / "run_check.py"), pid, "--tier", a.tier], cwd=ROOT, env=env,
                                   capture_output=True, text=True)
                lines = p.stdout.splitlines()
                nviol = sum(1 for l in lines if l.startswith("VIOLATION"))
                first = next((l.strip() for l in lines if l.startswith("  bucket=")), "")
                res[pid] = {"exit": p.returncode, "violations": nviol, "wall_s": round(time.time() - t0, 1), "first": first[:400]}
                if p.returncode == 2:
                    res[pid]["stderr"] = p.stderr[-300:]
            caught = [p for p, x in res.items() if x["exit"] == 1]
            meta.setdefault("checks", {})[a.tier] = res
            meta["caught_by_" + a.tier] = sorted(set(meta.get("caught_by_" + a.tier, [])) | set(caught)) if a.props else caught
            meta["demo_exit"] = demo
            (d / "meta.json").write_text(json.dumps(meta, indent=1) + "\n")
            report[name] = {"property": meta.get("property"), "demo": demo, "caught_by_" + a.tier: meta["caught_by_" + a.tier]}
            print(f"{'CAUGHT  ' if caught else 'MISSED  '} {name:28s} demo(with,without)=({demo.get('with_change')},{demo.get('unchanged')}) "
                  + " ".join(f"{p}:{x['exit']}({x['violations']},{x['wall_s']}s)" for p, x in res.items()), flush=True)
        finally:
            shutil.rmtree(scratch, ignore_errors=True)
    rep.write_text(json.dumps(report, indent=1, sort_keys=True) + "\n")


if __name__ == "__main__":
    main()
