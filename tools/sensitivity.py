#!/venv/bin/python
"""Sensitivity protocol (not a registered check): apply one small textual mutation at a
time to a scratch copy of the repository sources (outside /repo and /verif), run the owning
properties' quick checks with VERIF_REPO pointing at the copy, and require exit 1.

    tools/sensitivity.py [--only ID[,ID]] [--props C01,C02] [--jobs N]

Results: sensitivity/report.json"""

import argparse
import json
import os
import pathlib
import shutil
import subprocess
import sys
import tempfile
import time

ROOT = pathlib.Path(__file__).resolve().parent.parent
REPO = pathlib.Path(os.environ.get("VERIF_REPO", "/repo"))


def load(neutral=False):
    out = []
    for f in sorted((ROOT / "tools" / ("neutral" if neutral else "mutants")).glob("*.json")):
        out.extend(json.loads(f.read_text()))
    return out


def apply(m, root):
    p = root / m["file"]
    s = p.read_text()
    if m["old"] not in s:
        raise SystemExit(f"mutant {m['id']}: pattern not found in {m['file']}")
    count = m.get("count", 1)
    s2 = s.replace(m["old"], m["new"], count)
    if m.get("post"):
        s2 += m["post"]
    p.write_text(s2)


def run_one(m, props, tier):
    scratch = pathlib.Path(tempfile.mkdtemp(prefix="vp-scratch-"))
    try:
        shutil.copytree(REPO / "src", scratch / "src")
        apply(m, scratch)
        res = {}
        for pid in props:
            env = dict(os.environ, VERIF_REPO=str(scratch), VCHECK_EVIDENCE_DIR=str(scratch / "evidence"),
                       VCHECK_REPLAY_DIR=str(scratch / "replays"))
            env.pop("VCHECK_PYCACHE", None)
            env.pop("PYTHONPYCACHEPREFIX", None)
            t0 = time.time()
            r = subprocess.run([sys.executable, str(ROOT / "run_check.py"), pid, "--tier", tier], cwd=ROOT, env=env,
                               capture_output=True, text=True)
            nviol = sum(1 for l in r.stdout.splitlines() if l.startswith("VIOLATION"))
            first = next((l for l in r.stdout.splitlines() if l.startswith("  bucket=")), "")
            res[pid] = {"exit": r.returncode, "violations": nviol, "wall_s": round(time.time() - t0, 1), "first": first[:300],
                        "stderr": r.stderr[-400:] if r.returncode == 2 else ""}
        return res
    finally:
        shutil.rmtree(scratch, ignore_errors=True)


def main():
    ap = argparse.ArgumentParser()
    ap.add_argument("--only")
    ap.add_argument("--props")
    ap.add_argument("--tier", default="quick")
    ap.add_argument("--neutral", action="store_true", help="behaviour-preserving rewrites (tools/neutral): every check must stay quiet")
    a = ap.parse_args()
    muts = load(a.neutral)
    if a.only:
        ids = set(a.only.split(","))
        muts = [m for m in muts if m["id"] in ids]
    report = {}
    repfile = ROOT / "sensitivity" / ("neutral_report.json" if a.neutral else "report.json")
    if repfile.exists():
        report = json.loads(repfile.read_text())
    for m in muts:
        props = m["props"]
        if a.props:
            props = [p for p in props if p in a.props.split(",")]
        props = [p for p in props if (ROOT / "vcheck" / "props" / f"{p.lower()}.py").exists()]
        if not props:
            continue
        res = run_one(m, props, a.tier)
        caught = [p for p, r in res.items() if r["exit"] == 1]
        report[m["id"]] = {"file": m["file"], "desc": m.get("desc", ""), "results": res, "caught_by": caught}
        status = "CAUGHT" if caught else "SURVIVED"
        if a.neutral:
            bad = [p for p, r in res.items() if r["exit"] != 0]
            report[m["id"]]["quiet"] = not bad
            status = "ALARM" if bad else "QUIET"
        print(f"{status:9s} {m['id']:45s} " + " ".join(f"{p}:{r['exit']}({r['violations']},{r['wall_s']}s)" for p, r in res.items()), flush=True)
    repfile.parent.mkdir(exist_ok=True)
    repfile.write_text(json.dumps(report, indent=1, sort_keys=True) + "\n")


if __name__ == "__main__":
    main()
