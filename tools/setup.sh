#!/bin/sh
# Offline setup: make sure hypothesis/mpmath/jsonschema are importable by /venv's python
# (installs from the local wheelhouse only if missing), then a smoke test of the harness.
set -e
cd "$(dirname "$0")/.."
for pkg in hypothesis mpmath jsonschema; do
  /venv/bin/python -c "import $pkg" 2>/dev/null || \
    /venv/bin/pip install --no-index --find-links /opt/veriftools/wheels "$pkg"
done
/venv/bin/python - <<'PY'
import sys
sys.path.insert(0, ".")
from vcheck import env
env.setup()
from vcheck import mpbackend
print("vector from", __import__("vector").__file__, "| mp backend:", mpbackend.available())
PY
